//! C18 — unsafe durability / exposure settings are refused outside benchmark mode.
//! Real `KyroDbConfig::validate` on `KyroDbConfig::default()` with the safety-relevant settings
//! symbolic.  Environment and host strings are concrete per harness instance (a symbolically
//! selected String stalls the bit-blaster: probe); everything else is the solver's quantifier.
#![allow(non_snake_case)]
use super::*;

#[derive(Clone, Copy, PartialEq)]
enum Env {
    Production,
    Pilot,
    Benchmark,
    Invalid,
}

fn pick<T: Copy>(choices: &[T]) -> T {
    let i: usize = kani::any();
    kani::assume(i < choices.len());
    choices[i]
}

fn validate_body(env_literal: &'static str, env: Env, host: &'static str, host_loopback: bool, witness: bool) {
    let mut c = KyroDbConfig::default();
    c.environment.environment_type = String::from(env_literal);
    c.server.host = String::from(host);
    // symbolic safety-relevant settings
    c.persistence.fsync_policy = pick(&[FsyncPolicy::None, FsyncPolicy::DataOnly, FsyncPolicy::Full]);
    c.persistence.snapshot_interval_mutations = kani::any();
    c.persistence.recovery_mode = pick(&[RecoveryMode::Strict, RecoveryMode::BestEffort]);
    c.persistence.allow_fresh_start_on_recovery_failure = kani::any();
    c.cache.strategy = pick(&[CacheStrategy::Lru, CacheStrategy::Learned, CacheStrategy::AbTest]);
    c.auth.enabled = kani::any();
    let keys: bool = kani::any();
    c.auth.api_keys_file = if keys { Some(PathBuf::from("k")) } else { None };
    c.rate_limit.enabled = kani::any();
    c.server.observability_auth = pick(&[ObservabilityAuthMode::Disabled, ObservabilityAuthMode::MetricsAndSlo, ObservabilityAuthMode::All]);
    c.server.tls.enabled = kani::any();
    let cert: bool = kani::any();
    let key: bool = kani::any();
    c.server.tls.cert_path = if cert { Some(PathBuf::from("c")) } else { None };
    c.server.tls.key_path = if key { Some(PathBuf::from("k")) } else { None };
    c.server.tls.require_client_cert = false;
    let http_choice: u8 = kani::any();
    kani::assume(http_choice < 3);
    c.server.http_host = match http_choice {
        0 => None,
        1 => Some(String::from("127.0.0.1")),
        _ => Some(String::from("0.0.0.0")),
    };
    let http_loopback = match http_choice {
        0 => host_loopback,
        1 => true,
        _ => false,
    };

    let r = c.validate();
    let ok = r.is_ok();
    if witness {
        kani::cover!(ok, "some configuration of this (environment, host) row is accepted");
        kani::cover!(!ok, "some configuration of this row is rejected");
        std::mem::forget(r);
        std::mem::forget(c);
        return;
    }
    if ok {
        assert!(env != Env::Invalid, "C18: unknown environment names are rejected");
        if env == Env::Production || env == Env::Pilot {
            assert!(c.persistence.fsync_policy != FsyncPolicy::None, "C18: fsync disabled accepted outside benchmark");
            assert!(c.persistence.snapshot_interval_mutations != 0, "C18: snapshots disabled accepted outside benchmark");
            assert!(c.persistence.recovery_mode == RecoveryMode::Strict, "C18: best-effort recovery accepted outside benchmark");
            assert!(matches!(c.cache.strategy, CacheStrategy::Learned), "C18: non-learned cache strategy accepted outside benchmark");
        }
        if env == Env::Pilot {
            assert!(c.auth.enabled, "C18: pilot accepted without authentication");
            assert!(c.rate_limit.enabled, "C18: pilot accepted without rate limiting");
            assert!(c.server.observability_auth != ObservabilityAuthMode::Disabled, "C18: pilot accepted with open observability endpoints");
            assert!(!c.persistence.allow_fresh_start_on_recovery_failure, "C18: pilot accepted with fresh-start-after-failed-recovery");
            assert!(c.server.tls.enabled || host_loopback, "C18: pilot accepted without TLS on a non-loopback bind");
        }
        if env == Env::Production && !host_loopback {
            assert!(c.auth.enabled, "C18: production accepted on a non-loopback bind without authentication");
        }
        if env == Env::Production && !http_loopback {
            assert!(c.server.observability_auth != ObservabilityAuthMode::Disabled, "C18: production accepted with open observability endpoints on a non-loopback HTTP bind");
        }
        // consequences that hold in every environment
        assert!(!c.auth.enabled || keys, "C18: authentication enabled without a key file");
        assert!(!c.server.tls.enabled || (cert && key), "C18: TLS enabled without certificate/key");
    }
    std::mem::forget(r);
    std::mem::forget(c);
}

macro_rules! c18_row {
    ($name:ident, $wname:ident, $env_lit:expr, $env:expr, $host:expr, $loop:expr) => {
        #[kani::proof]
        #[kani::unwind(24)]
        #[kani::stub(std::fmt::format, crate::verif_support::fmt_format_stub)]
        #[kani::stub(std::backtrace::Backtrace::capture, crate::verif_support::backtrace_capture_stub)]
        #[kani::stub(std::hash::RandomState::new, crate::verif_support::random_state_new_stub)]
        fn $name() {
            validate_body($env_lit, $env, $host, $loop, false);
        }
        #[kani::proof]
        #[kani::unwind(24)]
        #[kani::stub(std::fmt::format, crate::verif_support::fmt_format_stub)]
        #[kani::stub(std::backtrace::Backtrace::capture, crate::verif_support::backtrace_capture_stub)]
        #[kani::stub(std::hash::RandomState::new, crate::verif_support::random_state_new_stub)]
        fn $wname() {
            validate_body($env_lit, $env, $host, $loop, true);
        }
    };
}

c18_row!(c18_pilot_lo, c18_pilot_lo__witness, "pilot", Env::Pilot, "127.0.0.1", true);
c18_row!(c18_pilot_any, c18_pilot_any__witness, "pilot", Env::Pilot, "0.0.0.0", false);
c18_row!(c18_pilot_mixedcase_any, c18_pilot_mixedcase_any__witness, " Pilot ", Env::Pilot, "0.0.0.0", false);
c18_row!(c18_pilot_upper_lo, c18_pilot_upper_lo__witness, "PILOT", Env::Pilot, "localhost", true);
c18_row!(c18_production_lo, c18_production_lo__witness, "production", Env::Production, "127.0.0.1", true);
c18_row!(c18_production_any, c18_production_any__witness, "production", Env::Production, "0.0.0.0", false);
c18_row!(c18_production_upper_lan, c18_production_upper_lan__witness, "PRODUCTION", Env::Production, "10.0.0.7", false);
c18_row!(c18_production_v6, c18_production_v6__witness, "production", Env::Production, "[::1]", true);
c18_row!(c18_production_padded_lo, c18_production_padded_lo__witness, " production", Env::Production, " 127.0.0.1 ", true);
c18_row!(c18_benchmark_any, c18_benchmark_any__witness, "benchmark", Env::Benchmark, "0.0.0.0", false);
c18_row!(c18_invalid_env, c18_invalid_env__witness, "staging", Env::Invalid, "127.0.0.1", true);
c18_row!(c18_empty_env, c18_empty_env__witness, "", Env::Invalid, "127.0.0.1", true);
