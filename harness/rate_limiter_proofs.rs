//! C19 — rate limits bound admitted traffic.  Kani harnesses over the real `TokenBucket`.
//! Appended (under cfg(kani)) as a child module of `rate_limiter.rs` in the overlay.
#![allow(non_snake_case)]
use super::*;
use crate::verif_support as vs;

const MAX_CAP: u32 = 1_000_000;
const MAX_GAP_S: u64 = 10_000;
const EPS: f64 = 1e-6;

/// Arbitrary valid bucket: 1 <= capacity <= 10^6, 0 <= tokens <= capacity, refill rate ==
/// capacity (the only way `TokenBucket::new` builds one), last refill at clock zero.
fn any_bucket() -> TokenBucket {
    let capacity: u32 = kani::any();
    kani::assume(capacity >= 1 && capacity <= MAX_CAP);
    bucket_with(capacity)
}

fn bucket_with(capacity: u32) -> TokenBucket {
    let tokens: f64 = kani::any();
    kani::assume(tokens >= 0.0 && tokens <= capacity as f64);
    TokenBucket {
        capacity,
        tokens,
        refill_rate: capacity as f64,
        last_refill: vs::instant_at(0, 0),
    }
}

/// O19.1a — one call at an arbitrary instant from an arbitrary valid state: everything that can
/// be said without knowing the value of elapsed*rate (fully symbolic capacity, tokens, elapsed).
fn step_invariants_body(witness: bool) {
    let es: u64 = kani::any();
    let en: u32 = kani::any();
    kani::assume(es <= MAX_GAP_S && en < 1_000_000_000);
    let mut b = any_bucket();
    let cap = b.capacity as f64;
    let t0 = b.tokens;
    vs::clock_set(es, en);
    let admitted = b.try_consume();
    if witness {
        kani::cover!(admitted && b.tokens > 0.5, "admitted step reachable");
        kani::cover!(!admitted, "refused step reachable");
        kani::cover!(admitted && es == 0 && en == 0, "admitted with zero elapsed");
        return;
    }
    assert!(b.tokens >= 0.0 && b.tokens <= cap, "C19: 0 <= tokens <= capacity after a call");
    assert!(b.capacity >= 1 && b.refill_rate == cap, "C19: capacity/rate untouched");
    // elapsed time is consumed, never credited twice: the reference instant becomes `now`
    assert!(b.last_refill == vs::instant_at(es, en), "C19: elapsed time is consumed by the refill");
    // refused only with less than one token left; refusal does not consume
    assert!(admitted || b.tokens < 1.0, "C19: refused only when fewer than one token");
    assert!(admitted || b.tokens >= t0, "C19: a refused call does not consume tokens");
    // with no time elapsed the only change is the consumed token
    if es == 0 && en == 0 {
        assert!(!admitted || (t0 >= 1.0 && b.tokens == t0 - 1.0), "C19: zero elapsed, admitted: exactly one token consumed");
        assert!(admitted || (t0 < 1.0 && b.tokens == t0), "C19: zero elapsed, refused: unchanged");
    }
}

#[kani::proof]
#[kani::unwind(4)]
#[kani::stub(std::time::Instant::now, crate::verif_support::instant_now_stub)]
fn c19_o1_step_invariants() {
    step_invariants_body(false);
}

#[kani::proof]
#[kani::unwind(4)]
#[kani::stub(std::time::Instant::now, crate::verif_support::instant_now_stub)]
fn c19_o1_step_invariants__witness() {
    step_invariants_body(true);
}

/// O19.1b — refill amount.  Inductive step of the window bound: with credit(t) = min(cap, tokens +
/// (t - last_refill) * rate), one call at `now` satisfies credit_after + admitted <= credit_before
/// (+eps), is admitted iff credit_before >= 1 (+-eps).  Between calls credit grows by at most
/// rate*dt and is capped, so over any window admitted <= cap + rate*window.
/// The product elapsed*rate is beyond the bit-blaster when both are symbolic (probe: > 5 min),
/// so capacity and elapsed are a concrete table (one harness per row, macro-generated) and the
/// token level is the symbolic quantity (all f64 in [0, cap]).
fn step_amount_body(cap_u: u32, es: u64, en: u32, witness: bool) {
    let mut b = bucket_with(cap_u);
    let cap = cap_u as f64;
    let credit = b.tokens + vs::secs_f64(es, en) * cap;
    let before = if credit < cap { credit } else { cap };
    vs::clock_set(es, en);
    let admitted = b.try_consume();
    if witness {
        kani::cover!(admitted, "admitted reachable");
        kani::cover!(!admitted || cap_u > 1 || es > 0, "row reachable");
        return;
    }
    let adm = if admitted { 1.0 } else { 0.0 };
    assert!(b.tokens >= 0.0 && b.tokens <= cap, "C19: 0 <= tokens <= capacity");
    assert!(b.tokens + adm <= before + EPS, "C19: credit after + admitted <= credit before");
    assert!(b.tokens + adm >= before - EPS, "C19: refill credits elapsed*rate (not less)");
    assert!(admitted || before < 1.0 + EPS, "C19: refused only when credit < 1");
    assert!(!admitted || before >= 1.0 - EPS, "C19: admitted only with credit >= 1");
}

macro_rules! amount_rows {
    ($($name:ident, $wname:ident: ($cap:expr, $es:expr, $en:expr);)*) => {$(
        #[kani::proof]
        #[kani::unwind(4)]
        #[kani::stub(std::time::Instant::now, crate::verif_support::instant_now_stub)]
        fn $name() { step_amount_body($cap, $es, $en, false); }
        #[kani::proof]
        #[kani::unwind(4)]
        #[kani::stub(std::time::Instant::now, crate::verif_support::instant_now_stub)]
        fn $wname() { step_amount_body($cap, $es, $en, true); }
    )*};
}

amount_rows! {
    c19_o1_amount_c1_t0, c19_o1_amount_c1_t0__witness: (1, 0, 0);
    c19_o1_amount_c1_t1ns, c19_o1_amount_c1_t1ns__witness: (1, 0, 1);
    c19_o1_amount_c1_t300ms, c19_o1_amount_c1_t300ms__witness: (1, 0, 300_000_000);
    c19_o1_amount_c1_t2500ms, c19_o1_amount_c1_t2500ms__witness: (1, 2, 500_000_000);
    c19_o1_amount_c7_t1ns, c19_o1_amount_c7_t1ns__witness: (7, 0, 1);
    c19_o1_amount_c7_t100ms, c19_o1_amount_c7_t100ms__witness: (7, 0, 100_000_000);
    c19_o1_amount_c7_t1s, c19_o1_amount_c7_t1s__witness: (7, 1, 0);
    c19_o1_amount_c1000_t0, c19_o1_amount_c1000_t0__witness: (1000, 0, 0);
    c19_o1_amount_c1000_t1ms, c19_o1_amount_c1000_t1ms__witness: (1000, 0, 1_000_000);
    c19_o1_amount_c1000_t333ms, c19_o1_amount_c1000_t333ms__witness: (1000, 0, 333_333_333);
    c19_o1_amount_c1000_t10000s, c19_o1_amount_c1000_t10000s__witness: (1000, 10_000, 0);
    c19_o1_amount_c1m_t1ns, c19_o1_amount_c1m_t1ns__witness: (1_000_000, 0, 1);
    c19_o1_amount_c1m_t999us, c19_o1_amount_c1m_t999us__witness: (1_000_000, 0, 999_999);
    c19_o1_amount_c1m_t1s, c19_o1_amount_c1m_t1s__witness: (1_000_000, 1, 0);
}

fn refund_body(witness: bool) {
    let mut b = any_bucket();
    let cap = b.capacity as f64;
    let t0 = b.tokens;
    b.refund_one();
    if witness {
        kani::cover!(b.tokens > t0, "refund adds");
        return;
    }
    assert!(b.tokens >= t0 && b.tokens <= cap, "C19: refund never exceeds capacity nor removes tokens");
    assert!(b.tokens <= t0 + 1.0 + EPS, "C19: refund returns at most one token");
    assert!(b.tokens >= t0 + 1.0 - EPS || b.tokens == cap, "C19: refund returns the token unless capped");
}

#[kani::proof]
#[kani::unwind(4)]
fn c19_o1_refund_one() {
    refund_body(false);
}

#[kani::proof]
#[kani::unwind(4)]
fn c19_o1_refund_one__witness() {
    refund_body(true);
}

// ---- O19.1d — TokenBucket::new: a fresh bucket holds exactly `max_qps` tokens (the burst), refills at `max_qps` per second and
// takes the current instant as its reference: nothing above the configured rate can be admitted in the first second.
fn new_bucket_body(witness: bool) {
    let q: u32 = kani::any();
    let s: u64 = kani::any();
    let n: u32 = kani::any();
    kani::assume(s <= MAX_GAP_S && n < 1_000_000_000);
    vs::clock_set(s, n);
    let b = TokenBucket::new(q);
    if witness {
        kani::cover!(q == 7, "a 7 qps bucket");
        return;
    }
    assert!(b.capacity == q, "C19: capacity is the configured rate");
    assert!(b.tokens == q as f64, "C19: a new bucket starts with exactly `max_qps` tokens");
    assert!(b.refill_rate == q as f64, "C19: the refill rate is `max_qps` tokens per second");
    assert!(b.last_refill == vs::instant_at(s, n), "C19: the refill reference of a new bucket is the instant of its creation");
}

#[kani::proof]
#[kani::unwind(4)]
#[kani::stub(std::time::Instant::now, crate::verif_support::instant_now_stub)]
fn c19_o1_new_bucket() {
    new_bucket_body(false);
}

#[kani::proof]
#[kani::unwind(4)]
#[kani::stub(std::time::Instant::now, crate::verif_support::instant_now_stub)]
fn c19_o1_new_bucket__witness() {
    new_bucket_body(true);
}
