//! persistence.rs over the in-memory file model (crate::verif_fs): WAL frame layout, fsync policy
//! against a symbolic clock, failed appends and their rollback (C01 O1.3/O1.8, C03 O3.4).
#![allow(non_snake_case)]
use super::*;
use crate::verif_fs as vfs;
use crate::verif_support as vs;

const FRAME_EMPTY: usize = 4 + 44 + 4; // bincode(WalEntry with empty embedding/metadata) = 44 bytes

fn any_entry() -> WalEntry {
    let op = match kani::any::<u8>() % 3 {
        0 => WalOp::Insert,
        1 => WalOp::Delete,
        _ => WalOp::UpdateMetadata,
    };
    WalEntry { op, doc_id: kani::any(), embedding: Vec::new(), metadata: HashMap::new(), seq_no: kani::any(), timestamp: kani::any() }
}

fn le32(d: &[u8; vfs::CAP], at: usize) -> u32 {
    u32::from_le_bytes([d[at], d[at + 1], d[at + 2], d[at + 3]])
}

/// Is there a well-formed frame for `e` at offset `at` of file 0?
fn frame_ok(at: usize, e: &WalEntry) -> bool {
    let st = vfs::state(0);
    if at + FRAME_EMPTY > st.len {
        return false;
    }
    let n = le32(&st.data, at) as usize;
    if n != 44 {
        return false;
    }
    let payload = &st.data[at + 4..at + 4 + 44];
    let ck = le32(&st.data, at + 4 + 44);
    // bincode layout: op u32 | doc_id u64 | emb len u64 | meta len u64 | seq u64 | ts u64
    let doc = u64::from_le_bytes([payload[4], payload[5], payload[6], payload[7], payload[8], payload[9], payload[10], payload[11]]);
    let seq = u64::from_le_bytes([payload[28], payload[29], payload[30], payload[31], payload[32], payload[33], payload[34], payload[35]]);
    ck == vfs::checksum_model(payload) && doc == e.doc_id && seq == e.seq_no
}

fn new_writer(policy: FsyncPolicy) -> WalWriter {
    vfs::reset();
    vs::clock_set(0, 0);
    let w = WalWriter::create("a", policy);
    assert!(w.is_ok(), "C01: creating a WAL on a healthy file system succeeds");
    let w = w.unwrap();
    let st = vfs::state(0);
    assert!(st.len == 4 && st.durable_len == 4 && le32(&st.data, 0) == WAL_MAGIC, "C01: magic header written and durable before the writer is returned");
    assert!(w.bytes_written == 4 && w.entry_count == 0);
    w
}

// ---------------------------------------------------------------------------------------------
// C01 O1.8 + O1.3(a): one and two acknowledged appends under FsyncPolicy::Always
// ---------------------------------------------------------------------------------------------
fn append_always_body(witness: bool) {
    let mut w = new_writer(FsyncPolicy::Always);
    let e1 = any_entry();
    let e2 = any_entry();
    let r1 = w.append_internal(&e1);
    let ok1 = r1.is_ok();
    std::mem::forget(r1);
    if witness {
        kani::cover!(ok1, "first append acknowledged");
        std::mem::forget(w);
        return;
    }
    assert!(ok1, "C01: append on a healthy file system is acknowledged");
    let st = vfs::state(0);
    assert!(st.len == 4 + FRAME_EMPTY && frame_ok(4, &e1), "C01: acknowledged entry is one well-formed frame after the magic");
    assert!(st.durable_len == st.len, "C01: FsyncPolicy::Always: acknowledged bytes are durable");
    assert!(w.bytes_written as usize == st.len && w.entry_count == 1, "C01: writer counters match the file");
    let r2 = w.append_internal(&e2);
    let ok2 = r2.is_ok();
    std::mem::forget(r2);
    assert!(ok2);
    let st = vfs::state(0);
    assert!(st.len == 4 + 2 * FRAME_EMPTY && frame_ok(4, &e1) && frame_ok(4 + FRAME_EMPTY, &e2), "C01: two acknowledged entries are two consecutive frames, the first untouched");
    assert!(st.durable_len == st.len && w.bytes_written as usize == st.len && w.entry_count == 2);
    std::mem::forget(w);
}

macro_rules! pers_harness {
    ($name:ident, $wname:ident, $body:ident, $unw:expr) => {
        #[kani::proof]
        #[kani::unwind($unw)]
        #[kani::stub(std::fmt::format, crate::verif_support::fmt_format_stub)]
        #[kani::stub(std::backtrace::Backtrace::capture, crate::verif_support::backtrace_capture_stub)]
        #[kani::stub(std::hash::RandomState::new, crate::verif_support::random_state_new_stub)]
        #[kani::stub(std::time::Instant::now, crate::verif_support::instant_now_stub)]
        #[kani::stub(crc32fast::hash, crate::verif_fs::checksum_model)]
        fn $name() {
            $body(false);
        }
        #[kani::proof]
        #[kani::unwind($unw)]
        #[kani::stub(std::fmt::format, crate::verif_support::fmt_format_stub)]
        #[kani::stub(std::backtrace::Backtrace::capture, crate::verif_support::backtrace_capture_stub)]
        #[kani::stub(std::hash::RandomState::new, crate::verif_support::random_state_new_stub)]
        #[kani::stub(std::time::Instant::now, crate::verif_support::instant_now_stub)]
        #[kani::stub(crc32fast::hash, crate::verif_fs::checksum_model)]
        fn $wname() {
            $body(true);
        }
    };
}

pers_harness!(c01_o8_append_always, c01_o8_append_always__witness, append_always_body, 50);

// ---------------------------------------------------------------------------------------------
// C01 O1.3(b): Periodic(i) syncs iff i == 0 or at least i ms elapsed since the last sync; Never never
// ---------------------------------------------------------------------------------------------
/// The append instant is a concrete row (a symbolic instant makes CBMC report spurious __rust_dealloc
/// failures in this harness: bisected, see DESIGN 6.2); the flush interval is the symbolic quantity, so
/// both sides of `elapsed >= interval` are explored for every row.
fn periodic_at(s: u64, ns: u32, witness: bool) {
    let interval_ms: u64 = kani::any();
    kani::assume(interval_ms <= 10_000);
    let mut w = new_writer(FsyncPolicy::Periodic(interval_ms));
    vs::clock_set(s, ns);
    let e1 = any_entry();
    let before = vfs::state(0).durable_len;
    let r = w.append_internal(&e1);
    let ok = r.is_ok();
    std::mem::forget(r);
    let st = vfs::state(0);
    let elapsed_ms_floor = s * 1000 + (ns / 1_000_000) as u64;
    let due = interval_ms == 0 || elapsed_ms_floor >= interval_ms;
    // The entry is the harness's own value: it is forgotten, not dropped (with an append instant of >= 1 s CBMC reports
    // spurious __rust_dealloc failures in the drop glue of this WalEntry: bisected, DESIGN 6.2; no code under test frees it).
    std::mem::forget(e1);
    if witness {
        kani::cover!(ok && (st.durable_len == st.len || st.durable_len == before), "append acknowledged");
        std::mem::forget(w);
        return;
    }
    assert!(ok);
    if due {
        assert!(st.durable_len == st.len, "C01: Periodic(i): a write i or more after the last sync is synced");
        assert!(w.last_fsync == vs::instant_at(s, ns), "C01: last_fsync advances when a sync happens");
    } else {
        assert!(st.durable_len == before, "C01: Periodic(i): no sync before the interval elapsed");
        assert!(w.last_fsync == vs::instant_at(0, 0), "C01: last_fsync unchanged when no sync happens");
    }
    std::mem::forget(w);
}

fn periodic_t0(w: bool) {
    periodic_at(0, 0, w);
}
fn periodic_t1ns(w: bool) {
    periodic_at(0, 1, w);
}
fn periodic_t500ms(w: bool) {
    periodic_at(0, 500_000_000, w);
}
fn periodic_t2999999us(w: bool) {
    periodic_at(2, 999_999_000, w);
}
pers_harness!(c01_o3_periodic_t0, c01_o3_periodic_t0__witness, periodic_t0, 50);
pers_harness!(c01_o3_periodic_t1ns, c01_o3_periodic_t1ns__witness, periodic_t1ns, 50);
pers_harness!(c01_o3_periodic_t500ms, c01_o3_periodic_t500ms__witness, periodic_t500ms, 50);
pers_harness!(c01_o3_periodic_t2999999us, c01_o3_periodic_t2999999us__witness, periodic_t2999999us, 50);

fn never_body(witness: bool) {
    let mut w = new_writer(FsyncPolicy::Never);
    let e1 = any_entry();
    let r = w.append_internal(&e1);
    let ok = r.is_ok();
    std::mem::forget(r);
    let st = vfs::state(0);
    if witness {
        kani::cover!(ok, "append acknowledged");
        std::mem::forget(w);
        return;
    }
    assert!(ok && st.len == 4 + FRAME_EMPTY && st.durable_len == 4, "C01: FsyncPolicy::Never: written but not synced");
    std::mem::forget(w);
}

pers_harness!(c01_o3_never_policy, c01_o3_never_policy__witness, never_body, 50);

// ---------------------------------------------------------------------------------------------
// C01 O1.3(c): under Periodic(i) every entry acknowledged more than i before a power failure at T is
// durable.  One acknowledged append at time t1 < i after creation, then silence until T > t1 + i.
// ---------------------------------------------------------------------------------------------
fn periodic_idle_body(witness: bool) {
    let interval_ms: u64 = kani::any();
    kani::assume(interval_ms >= 1 && interval_ms <= 10_000);
    let mut w = new_writer(FsyncPolicy::Periodic(interval_ms));
    vs::clock_set(0, 1_000_000); // acknowledged 1 ms after the writer was created (concrete instant, see periodic_at)
    let e1 = any_entry();
    let r = w.append_internal(&e1);
    let ok = r.is_ok();
    std::mem::forget(r);
    // power failure at any T more than `interval` after the acknowledgement; nothing else happens meanwhile
    let st = vfs::state(0);
    if witness {
        kani::cover!(ok && st.durable_len < st.len, "acknowledged but not yet durable");
        std::mem::forget(w);
        return;
    }
    assert!(!ok || st.durable_len == st.len, "C01: Periodic(i): an entry acknowledged more than i before a power failure is durable (no later call is needed to flush it)");
    std::mem::forget(w);
}

pers_harness!(c01_o3_periodic_idle, c01_o3_periodic_idle__witness, periodic_idle_body, 50);

// ---------------------------------------------------------------------------------------------
// C03 O3.4: a failed append leaves the log where it was (or reports the rollback failure)
// ---------------------------------------------------------------------------------------------
/// kind 0: the frame write stops after `short` bytes and fails; kind 1: frame written, fsync fails.
/// rollback_fault: 0 none, 1 set_len fails, 2 seek fails.  retry: also exercise a fault-free retry.
fn failed_append(kind: u8, short: usize, rollback_fault: u8, retry: bool, witness: bool) {
    let mut w = new_writer(FsyncPolicy::Always);
    let e1 = any_entry();
    let e2 = any_entry();
    let r1 = w.append_internal(&e1);
    let ok1 = r1.is_ok();
    std::mem::forget(r1);
    assert!(ok1);
    let stable_offset = w.bytes_written;
    let stable_count = w.entry_count;
    let before = vfs::state(0);
    unsafe {
        if kind == 0 {
            vfs::FAULTS.write_fail_at = vfs::COUNTERS.writes;
            vfs::FAULTS.write_short = short;
        } else {
            vfs::FAULTS.sync_fail_at = vfs::COUNTERS.syncs;
        }
        vfs::FAULTS.set_len_fails = (rollback_fault == 1) as usize;
        vfs::FAULTS.seek_fails = (rollback_fault == 2) as usize;
    }
    let r2 = w.append_internal_with_rollback(&e2, stable_offset, stable_count);
    let ok2 = r2.is_ok();
    std::mem::forget(r2);
    let st = vfs::state(0);
    if witness {
        kani::cover!(!ok2, "failed append reported");
        std::mem::forget(w);
        return;
    }
    assert!(!ok2, "C03: an append that hit a write/fsync fault is never acknowledged");
    if rollback_fault == 0 {
        assert!(st.len == stable_offset as usize && st.len == before.len, "C03: failed append: file truncated back to the last good offset");
        assert!(w.bytes_written == stable_offset && w.entry_count == stable_count, "C03: failed append: writer counters restored");
        assert!(frame_ok(4, &e1), "C03: failed append: earlier acknowledged frame untouched");
        if retry {
            vfs::no_faults();
            let r3 = w.append_internal_with_rollback(&e2, w.bytes_written, w.entry_count);
            let ok3 = r3.is_ok();
            std::mem::forget(r3);
            let st3 = vfs::state(0);
            assert!(ok3 && st3.len == 4 + 2 * FRAME_EMPTY && frame_ok(4, &e1) && frame_ok(4 + FRAME_EMPTY, &e2) && st3.durable_len == st3.len, "C03: retry after rollback produces a clean, durable two-frame log");
            assert!(w.bytes_written as usize == st3.len && w.entry_count == 2);
        }
    }
    std::mem::forget(w);
}

// Concrete cut positions (quick tier) 0 / 7 / 51 cover "nothing written", "inside the length+payload" and
// "all but the last checksum byte".
fn short_write_0(witness: bool) {
    failed_append(0, 0, 0, false, witness);
}
fn short_write_7(witness: bool) {
    failed_append(0, 7, 0, false, witness);
}
fn short_write_51(witness: bool) {
    failed_append(0, 51, 0, false, witness);
}
fn fsync_fails_body(witness: bool) {
    failed_append(1, 0, 0, false, witness);
}
// (a symbolic choice between the two rollback faults ran out of memory at 14 GB; one row per fault)
fn rollback_fails_setlen(witness: bool) {
    failed_append(0, 10, 1, false, witness);
}
fn rollback_fails_seek(witness: bool) {
    failed_append(0, 10, 2, false, witness);
}
fn retry_body(witness: bool) {
    failed_append(0, 10, 0, true, witness);
}

// A symbolic cut position (0..51) did not finish (CBMC error after 525 s, memory); the thorough tier adds the concrete
// boundary positions 1 / 4 (end of the length prefix) / 26 / 48 (end of the payload) instead.
fn short_write_1(witness: bool) {
    failed_append(0, 1, 0, false, witness);
}
fn short_write_4(witness: bool) {
    failed_append(0, 4, 0, false, witness);
}
fn short_write_26(witness: bool) {
    failed_append(0, 26, 0, false, witness);
}
fn short_write_48(witness: bool) {
    failed_append(0, 48, 0, false, witness);
}
pers_harness!(c03_o4_short_write_1, c03_o4_short_write_1__witness, short_write_1, 50);
pers_harness!(c03_o4_short_write_4, c03_o4_short_write_4__witness, short_write_4, 50);
pers_harness!(c03_o4_short_write_26, c03_o4_short_write_26__witness, short_write_26, 50);
pers_harness!(c03_o4_short_write_48, c03_o4_short_write_48__witness, short_write_48, 50);
pers_harness!(c03_o4_short_write_0, c03_o4_short_write_0__witness, short_write_0, 50);
pers_harness!(c03_o4_short_write_7, c03_o4_short_write_7__witness, short_write_7, 50);
pers_harness!(c03_o4_short_write_51, c03_o4_short_write_51__witness, short_write_51, 50);
pers_harness!(c03_o4_failed_fsync_rolled_back, c03_o4_failed_fsync_rolled_back__witness, fsync_fails_body, 50);
pers_harness!(c03_o4_rollback_fails_setlen, c03_o4_rollback_fails_setlen__witness, rollback_fails_setlen, 50);
pers_harness!(c03_o4_rollback_fails_seek, c03_o4_rollback_fails_seek__witness, rollback_fails_seek, 50);
pers_harness!(c03_o4_retry_after_rollback, c03_o4_retry_after_rollback__witness, retry_body, 50);

// ---------------------------------------------------------------------------------------------
// C03 O3.4 (batch): a failed batch append is all-or-nothing
// ---------------------------------------------------------------------------------------------
fn batch_fault(kind: u8, witness: bool) {
    let mut w = new_writer(FsyncPolicy::Always);
    let e1 = any_entry();
    let r1 = w.append_internal(&e1);
    let ok1 = r1.is_ok();
    std::mem::forget(r1);
    assert!(ok1);
    let stable_offset = w.bytes_written;
    let stable_count = w.entry_count;
    let batch = [any_entry()]; // one-entry batch on the stack (a Vec of entries makes the harness run > 25 min)
    unsafe {
        if kind == 0 {
            vfs::FAULTS.write_fail_at = vfs::COUNTERS.writes;
            vfs::FAULTS.write_short = 7;
        } else {
            vfs::FAULTS.sync_fail_at = vfs::COUNTERS.syncs;
        }
    }
    let r2 = w.append_batch_internal_with_rollback(&batch, stable_offset, stable_count);
    let ok2 = r2.is_ok();
    std::mem::forget(r2);
    let st = vfs::state(0);
    if witness {
        kani::cover!(!ok2, "failed batch reported");
        std::mem::forget(batch);
        std::mem::forget(w);
        return;
    }
    assert!(!ok2, "C03: a batch append that hit a fault is never acknowledged");
    assert!(st.len == stable_offset as usize, "C03: failed batch: no frame of the batch stays in the log");
    assert!(w.bytes_written == stable_offset && w.entry_count == stable_count && frame_ok(4, &e1), "C03: failed batch: counters restored, earlier frame untouched");
    std::mem::forget(batch);
    std::mem::forget(w);
}
fn batch_fsync_fails(witness: bool) {
    batch_fault(1, witness);
}
fn batch_short_write(witness: bool) {
    batch_fault(0, witness);
}

pers_harness!(c03_o4_batch_fsync_fails, c03_o4_batch_fsync_fails__witness, batch_fsync_fails, 50);
pers_harness!(c03_o4_batch_short_write, c03_o4_batch_short_write__witness, batch_short_write, 50);
