//! simd.rs: kernel tables for stubbing the runtime dispatch + C17 bounds harnesses.
#![allow(non_snake_case)]
use super::*;

/// Stub target for `detect_best_f32_kernels`: the scalar table (this *is* the runtime dispatch
/// result on a CPU without SIMD; harnesses that need another table use the *_table fns below).
pub(crate) fn scalar_table() -> ResolvedF32Kernels {
    ResolvedF32Kernels {
        dot: dot_f32_scalar_entry,
        sum_squares: sum_squares_f32_scalar_entry,
        l2_distance_sq: l2_distance_sq_f32_scalar_entry,
        dot_and_norms: dot_and_norms_f32_scalar_entry,
    }
}

// -------------------------------------------------------------------------------------------
// C17 O17.1 — the x86 kernels stay inside their input slices for every length, including lengths
// that are not a multiple of the SIMD width.  Inputs live in exact-size heap allocations, so an
// access past `len` is an access past the object and is reported by CBMC's pointer checks.
// Arithmetic intrinsics Kani cannot model (FMA, AVX-512 arithmetic) are stubbed to return their
// accumulator operand: values are irrelevant to bounds.  Loads/stores are NOT stubbed.
// -------------------------------------------------------------------------------------------
#[cfg(target_arch = "x86_64")]
pub(crate) mod x86 {
    use super::*;
    use std::arch::x86_64::*;

    pub fn fmadd256(_a: __m256, _b: __m256, c: __m256) -> __m256 {
        c
    }
    pub fn fmadd512(_a: __m512, _b: __m512, c: __m512) -> __m512 {
        c
    }
    pub fn add512(a: __m512, _b: __m512) -> __m512 {
        a
    }
    pub fn sub512(a: __m512, _b: __m512) -> __m512 {
        a
    }
    pub fn mask3_fmadd512(_a: __m512, _b: __m512, c: __m512, _k: __mmask16) -> __m512 {
        c
    }

    fn exact_vec(len: usize, max: usize) -> Vec<f32> {
        // exact-size allocation (capacity == len) with arbitrary finite-or-not contents
        let mut v: Vec<f32> = Vec::with_capacity(len);
        let mut i = 0;
        while i < max {
            if i < len {
                v.push(kani::any());
            }
            i += 1;
        }
        v
    }

    pub fn binary_body(kernel: fn(&[f32], &[f32]) -> f32, max: usize, witness: bool) {
        let len: usize = kani::any();
        kani::assume(len >= 1 && len <= max);
        let a = exact_vec(len, max);
        let b = exact_vec(len, max);
        let r = kernel(&a, &b);
        if witness {
            kani::cover!(len == max, "longest length reachable");
            kani::cover!(len == 1, "shortest length reachable");
        }
        let _ = r;
    }

    pub fn unary_body(kernel: fn(&[f32]) -> f32, max: usize, witness: bool) {
        let len: usize = kani::any();
        kani::assume(len >= 1 && len <= max);
        let a = exact_vec(len, max);
        let r = kernel(&a);
        if witness {
            kani::cover!(len == max, "longest length reachable");
            kani::cover!(len == 1, "shortest length reachable");
        }
        let _ = r;
    }

    pub fn triple_body(kernel: fn(&[f32], &[f32]) -> (f32, f32, f32), max: usize, witness: bool) {
        let len: usize = kani::any();
        kani::assume(len >= 1 && len <= max);
        let a = exact_vec(len, max);
        let b = exact_vec(len, max);
        let r = kernel(&a, &b);
        if witness {
            kani::cover!(len == max, "longest length reachable");
            kani::cover!(len == 1, "shortest length reachable");
        }
        let _ = r;
    }
}

macro_rules! c17_kernel {
    ($name:ident, $wname:ident, $body:ident, $entry:ident, $max:expr, $unw:expr) => {
        #[cfg(target_arch = "x86_64")]
        #[kani::proof]
        #[kani::unwind($unw)]
        #[kani::stub(std::arch::x86_64::_mm256_fmadd_ps, crate::simd::verif_proofs::x86::fmadd256)]
        #[kani::stub(std::arch::x86_64::_mm512_fmadd_ps, crate::simd::verif_proofs::x86::fmadd512)]
        #[kani::stub(std::arch::x86_64::_mm512_add_ps, crate::simd::verif_proofs::x86::add512)]
        #[kani::stub(std::arch::x86_64::_mm512_sub_ps, crate::simd::verif_proofs::x86::sub512)]
        fn $name() {
            x86::$body($entry, $max, false);
        }
        #[cfg(target_arch = "x86_64")]
        #[kani::proof]
        #[kani::unwind($unw)]
        #[kani::stub(std::arch::x86_64::_mm256_fmadd_ps, crate::simd::verif_proofs::x86::fmadd256)]
        #[kani::stub(std::arch::x86_64::_mm512_fmadd_ps, crate::simd::verif_proofs::x86::fmadd512)]
        #[kani::stub(std::arch::x86_64::_mm512_add_ps, crate::simd::verif_proofs::x86::add512)]
        #[kani::stub(std::arch::x86_64::_mm512_sub_ps, crate::simd::verif_proofs::x86::sub512)]
        fn $wname() {
            x86::$body($entry, $max, true);
        }
    };
}

// W = 4 (SSE2): lengths 1 ..= 4*4 + 4 + 3 = 23;  W = 8 (AVX2): 1 ..= 43;  W = 16 (AVX-512): 1 ..= 83
c17_kernel!(c17_o1_dot_sse2, c17_o1_dot_sse2__witness, binary_body, dot_f32_sse2_entry, 23, 25);
c17_kernel!(c17_o1_sumsq_sse2, c17_o1_sumsq_sse2__witness, unary_body, sum_squares_f32_sse2_entry, 23, 25);
c17_kernel!(c17_o1_l2_sse2, c17_o1_l2_sse2__witness, binary_body, l2_distance_sq_f32_sse2_entry, 23, 25);
c17_kernel!(c17_o1_dotnorms_sse2, c17_o1_dotnorms_sse2__witness, triple_body, dot_and_norms_f32_sse2_entry, 23, 25);
c17_kernel!(c17_o1_dot_avx2, c17_o1_dot_avx2__witness, binary_body, dot_f32_avx2_entry, 43, 45);
c17_kernel!(c17_o1_sumsq_avx2, c17_o1_sumsq_avx2__witness, unary_body, sum_squares_f32_avx2_entry, 43, 45);
c17_kernel!(c17_o1_l2_avx2, c17_o1_l2_avx2__witness, binary_body, l2_distance_sq_f32_avx2_entry, 43, 45);
c17_kernel!(c17_o1_dotnorms_avx2, c17_o1_dotnorms_avx2__witness, triple_body, dot_and_norms_f32_avx2_entry, 43, 45);
c17_kernel!(c17_o1_dot_avx512, c17_o1_dot_avx512__witness, binary_body, dot_f32_avx512_entry, 83, 85);
c17_kernel!(c17_o1_sumsq_avx512, c17_o1_sumsq_avx512__witness, unary_body, sum_squares_f32_avx512_entry, 83, 85);
c17_kernel!(c17_o1_l2_avx512, c17_o1_l2_avx512__witness, binary_body, l2_distance_sq_f32_avx512_entry, 83, 85);
c17_kernel!(c17_o1_dotnorms_avx512, c17_o1_dotnorms_avx512__witness, triple_body, dot_and_norms_f32_avx512_entry, 83, 85);
