//! simd.rs: kernel tables for stubbing the runtime dispatch + C17 bounds harnesses.
#![allow(non_snake_case)]
use super::*;

/// Stub target for `detect_best_f32_kernels`: the scalar table (this *is* the runtime dispatch
/// result on a CPU without SIMD; harnesses that need another table use the *_table fns below).
pub(crate) fn scalar_table() -> ResolvedF32Kernels {
    ResolvedF32Kernels {
        dot: dot_f32_scalar_entry,
        sum_squares: sum_squares_f32_scalar_entry,
        l2_distance_sq: l2_distance_sq_f32_scalar_entry,
        dot_and_norms: dot_and_norms_f32_scalar_entry,
    }
}

// -------------------------------------------------------------------------------------------
// C17 O17.1 — the x86 kernels stay inside their input slices for every length, including lengths
// that are not a multiple of the SIMD width.  Inputs live in exact-size heap allocations, so an
// access past `len` is an access past the object and is reported by CBMC's pointer checks.
// Arithmetic intrinsics (add/sub/mul/FMA; Kani cannot model FMA and AVX-512 arithmetic at all) are stubbed
// to return their first/accumulator operand: values are irrelevant to bounds.  Loads/stores are NOT stubbed.
// -------------------------------------------------------------------------------------------
#[cfg(target_arch = "x86_64")]
pub(crate) mod x86 {
    use super::*;
    use std::arch::x86_64::*;

    pub fn fmadd256(_a: __m256, _b: __m256, c: __m256) -> __m256 {
        c
    }
    pub fn fmadd512(_a: __m512, _b: __m512, c: __m512) -> __m512 {
        c
    }
    pub fn add512(a: __m512, _b: __m512) -> __m512 {
        a
    }
    pub fn sub512(a: __m512, _b: __m512) -> __m512 {
        a
    }
    pub fn mask3_fmadd512(_a: __m512, _b: __m512, c: __m512, _k: __mmask16) -> __m512 {
        c
    }

    pub fn add128(a: __m128, _b: __m128) -> __m128 {
        a
    }
    pub fn add256(a: __m256, _b: __m256) -> __m256 {
        a
    }
    pub fn sub256(a: __m256, _b: __m256) -> __m256 {
        a
    }

    /// A slice of `len` floats that ENDS exactly at the end of a heap object of `max` floats: a read past
    /// `len` is a read past the object (CBMC pointer check).  Object size and contents are concrete; only
    /// the slice start (max - len) is symbolic, which keeps CBMC's memory model small.  Kernels do not
    /// branch on data, so which addresses are touched depends on `len` only.
    fn tail_slice(buf: &Vec<f32>, len: usize) -> &[f32] {
        let n = buf.len();
        &buf[n - len..]
    }

    pub fn binary_body(kernel: fn(&[f32], &[f32]) -> f32, max: usize, witness: bool) {
        let len: usize = kani::any();
        kani::assume(len >= 1 && len <= max);
        let ba = vec![0.5f32; max];
        let bb = vec![0.25f32; max];
        let r = kernel(tail_slice(&ba, len), tail_slice(&bb, len));
        if witness {
            kani::cover!(len == max, "longest length reachable");
            kani::cover!(len == 1, "shortest length reachable");
        }
        let _ = r;
    }

    pub fn unary_body(kernel: fn(&[f32]) -> f32, max: usize, witness: bool) {
        let len: usize = kani::any();
        kani::assume(len >= 1 && len <= max);
        let ba = vec![0.5f32; max];
        let r = kernel(tail_slice(&ba, len));
        if witness {
            kani::cover!(len == max, "longest length reachable");
            kani::cover!(len == 1, "shortest length reachable");
        }
        let _ = r;
    }

    pub fn triple_body(kernel: fn(&[f32], &[f32]) -> (f32, f32, f32), max: usize, witness: bool) {
        let len: usize = kani::any();
        kani::assume(len >= 1 && len <= max);
        let ba = vec![0.5f32; max];
        let bb = vec![0.25f32; max];
        let r = kernel(tail_slice(&ba, len), tail_slice(&bb, len));
        if witness {
            kani::cover!(len == max, "longest length reachable");
            kani::cover!(len == 1, "shortest length reachable");
        }
        let _ = r;
    }
}

macro_rules! c17_kernel {
    ($name:ident, $wname:ident, $body:ident, $entry:ident, $max:expr, $unw:expr) => {
        #[cfg(target_arch = "x86_64")]
        #[kani::proof]
        #[kani::unwind($unw)]
        #[kani::stub(std::arch::x86_64::_mm256_fmadd_ps, crate::simd::verif_proofs::x86::fmadd256)]
        #[kani::stub(std::arch::x86_64::_mm512_fmadd_ps, crate::simd::verif_proofs::x86::fmadd512)]
        #[kani::stub(std::arch::x86_64::_mm512_add_ps, crate::simd::verif_proofs::x86::add512)]
        #[kani::stub(std::arch::x86_64::_mm512_sub_ps, crate::simd::verif_proofs::x86::sub512)]
        #[kani::stub(std::arch::x86_64::_mm256_add_ps, crate::simd::verif_proofs::x86::add256)]
        #[kani::stub(std::arch::x86_64::_mm256_sub_ps, crate::simd::verif_proofs::x86::sub256)]
        #[kani::stub(std::arch::x86_64::_mm_add_ps, crate::simd::verif_proofs::x86::add128)]
        #[kani::stub(std::arch::x86_64::_mm_mul_ps, crate::simd::verif_proofs::x86::add128)]
        #[kani::stub(std::arch::x86_64::_mm_sub_ps, crate::simd::verif_proofs::x86::add128)]
        fn $name() {
            x86::$body($entry, $max, false);
        }
        #[cfg(target_arch = "x86_64")]
        #[kani::proof]
        #[kani::unwind($unw)]
        #[kani::stub(std::arch::x86_64::_mm256_fmadd_ps, crate::simd::verif_proofs::x86::fmadd256)]
        #[kani::stub(std::arch::x86_64::_mm512_fmadd_ps, crate::simd::verif_proofs::x86::fmadd512)]
        #[kani::stub(std::arch::x86_64::_mm512_add_ps, crate::simd::verif_proofs::x86::add512)]
        #[kani::stub(std::arch::x86_64::_mm512_sub_ps, crate::simd::verif_proofs::x86::sub512)]
        #[kani::stub(std::arch::x86_64::_mm256_add_ps, crate::simd::verif_proofs::x86::add256)]
        #[kani::stub(std::arch::x86_64::_mm256_sub_ps, crate::simd::verif_proofs::x86::sub256)]
        #[kani::stub(std::arch::x86_64::_mm_add_ps, crate::simd::verif_proofs::x86::add128)]
        #[kani::stub(std::arch::x86_64::_mm_mul_ps, crate::simd::verif_proofs::x86::add128)]
        #[kani::stub(std::arch::x86_64::_mm_sub_ps, crate::simd::verif_proofs::x86::add128)]
        fn $wname() {
            x86::$body($entry, $max, true);
        }
    };
}

// quick: lengths 1 ..= 2W+3 (single-chunk loop twice + every tail length); *_full (thorough): 1 ..= 4W+W+3 (also the 4x-unrolled loop)
c17_kernel!(c17_o1_dot_sse2, c17_o1_dot_sse2__witness, binary_body, dot_f32_sse2_entry, 11, 13);
c17_kernel!(c17_o1_dot_sse2_full, c17_o1_dot_sse2_full__witness, binary_body, dot_f32_sse2_entry, 23, 25);
c17_kernel!(c17_o1_sumsq_sse2, c17_o1_sumsq_sse2__witness, unary_body, sum_squares_f32_sse2_entry, 11, 13);
c17_kernel!(c17_o1_sumsq_sse2_full, c17_o1_sumsq_sse2_full__witness, unary_body, sum_squares_f32_sse2_entry, 23, 25);
c17_kernel!(c17_o1_l2_sse2, c17_o1_l2_sse2__witness, binary_body, l2_distance_sq_f32_sse2_entry, 11, 13);
c17_kernel!(c17_o1_l2_sse2_full, c17_o1_l2_sse2_full__witness, binary_body, l2_distance_sq_f32_sse2_entry, 23, 25);
c17_kernel!(c17_o1_dotnorms_sse2, c17_o1_dotnorms_sse2__witness, triple_body, dot_and_norms_f32_sse2_entry, 11, 13);
c17_kernel!(c17_o1_dotnorms_sse2_full, c17_o1_dotnorms_sse2_full__witness, triple_body, dot_and_norms_f32_sse2_entry, 23, 25);
c17_kernel!(c17_o1_dot_avx2, c17_o1_dot_avx2__witness, binary_body, dot_f32_avx2_entry, 19, 21);
c17_kernel!(c17_o1_dot_avx2_full, c17_o1_dot_avx2_full__witness, binary_body, dot_f32_avx2_entry, 43, 45);
c17_kernel!(c17_o1_sumsq_avx2, c17_o1_sumsq_avx2__witness, unary_body, sum_squares_f32_avx2_entry, 19, 21);
c17_kernel!(c17_o1_sumsq_avx2_full, c17_o1_sumsq_avx2_full__witness, unary_body, sum_squares_f32_avx2_entry, 43, 45);
c17_kernel!(c17_o1_l2_avx2, c17_o1_l2_avx2__witness, binary_body, l2_distance_sq_f32_avx2_entry, 19, 21);
c17_kernel!(c17_o1_l2_avx2_full, c17_o1_l2_avx2_full__witness, binary_body, l2_distance_sq_f32_avx2_entry, 43, 45);
c17_kernel!(c17_o1_dotnorms_avx2, c17_o1_dotnorms_avx2__witness, triple_body, dot_and_norms_f32_avx2_entry, 19, 21);
c17_kernel!(c17_o1_dotnorms_avx2_full, c17_o1_dotnorms_avx2_full__witness, triple_body, dot_and_norms_f32_avx2_entry, 43, 45);
c17_kernel!(c17_o1_dot_avx512, c17_o1_dot_avx512__witness, binary_body, dot_f32_avx512_entry, 35, 37);
c17_kernel!(c17_o1_dot_avx512_full, c17_o1_dot_avx512_full__witness, binary_body, dot_f32_avx512_entry, 83, 85);
c17_kernel!(c17_o1_sumsq_avx512, c17_o1_sumsq_avx512__witness, unary_body, sum_squares_f32_avx512_entry, 35, 37);
c17_kernel!(c17_o1_sumsq_avx512_full, c17_o1_sumsq_avx512_full__witness, unary_body, sum_squares_f32_avx512_entry, 83, 85);
c17_kernel!(c17_o1_l2_avx512, c17_o1_l2_avx512__witness, binary_body, l2_distance_sq_f32_avx512_entry, 35, 37);
c17_kernel!(c17_o1_l2_avx512_full, c17_o1_l2_avx512_full__witness, binary_body, l2_distance_sq_f32_avx512_entry, 83, 85);
c17_kernel!(c17_o1_dotnorms_avx512, c17_o1_dotnorms_avx512__witness, triple_body, dot_and_norms_f32_avx512_entry, 35, 37);
c17_kernel!(c17_o1_dotnorms_avx512_full, c17_o1_dotnorms_avx512_full__witness, triple_body, dot_and_norms_f32_avx512_entry, 83, 85);
