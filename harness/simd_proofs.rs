//! simd.rs: kernel tables for stubbing the runtime dispatch + C17 bounds harnesses.
#![allow(non_snake_case)]
use super::*;

/// Stub target for `detect_best_f32_kernels`: the scalar table (this *is* the runtime dispatch
/// result on a CPU without SIMD; harnesses that need another table use the *_table fns below).
pub(crate) fn scalar_table() -> ResolvedF32Kernels {
    ResolvedF32Kernels {
        dot: dot_f32_scalar_entry,
        sum_squares: sum_squares_f32_scalar_entry,
        l2_distance_sq: l2_distance_sq_f32_scalar_entry,
        dot_and_norms: dot_and_norms_f32_scalar_entry,
    }
}
