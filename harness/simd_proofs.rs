//! simd.rs: kernel tables for stubbing the runtime dispatch + C17 bounds harnesses.
#![allow(non_snake_case)]
use super::*;

/// Stub target for `detect_best_f32_kernels`: the scalar table (this *is* the runtime dispatch
/// result on a CPU without SIMD; harnesses that need another table use the *_table fns below).
pub(crate) fn scalar_table() -> ResolvedF32Kernels {
    ResolvedF32Kernels {
        dot: dot_f32_scalar_entry,
        sum_squares: sum_squares_f32_scalar_entry,
        l2_distance_sq: l2_distance_sq_f32_scalar_entry,
        dot_and_norms: dot_and_norms_f32_scalar_entry,
    }
}

// -------------------------------------------------------------------------------------------
// C17 O17.1 — the x86 kernels stay inside their input slices for every length, including lengths
// that are not a multiple of the SIMD width.  Inputs live in exact-size heap allocations, so an
// access past `len` is an access past the object and is reported by CBMC's pointer checks.
// Arithmetic intrinsics (add/sub/mul/FMA; Kani cannot model FMA and AVX-512 arithmetic at all) are stubbed
// to return their first/accumulator operand: values are irrelevant to bounds.  Loads/stores are NOT stubbed.
// -------------------------------------------------------------------------------------------
#[cfg(target_arch = "x86_64")]
pub(crate) mod x86 {
    use super::*;
    use std::arch::x86_64::*;

    pub fn fmadd256(_a: __m256, _b: __m256, c: __m256) -> __m256 {
        c
    }
    pub fn fmadd512(_a: __m512, _b: __m512, c: __m512) -> __m512 {
        c
    }
    pub fn add512(a: __m512, _b: __m512) -> __m512 {
        a
    }
    pub fn sub512(a: __m512, _b: __m512) -> __m512 {
        a
    }
    pub fn mask3_fmadd512(_a: __m512, _b: __m512, c: __m512, _k: __mmask16) -> __m512 {
        c
    }

    pub fn add128(a: __m128, _b: __m128) -> __m128 {
        a
    }
    pub fn add256(a: __m256, _b: __m256) -> __m256 {
        a
    }
    pub fn sub256(a: __m256, _b: __m256) -> __m256 {
        a
    }

    /// A slice of `len` floats that ENDS exactly at the end of a heap object of `max` floats: a read past
    /// `len` is a read past the object (CBMC pointer check).  Object size and contents are concrete; only
    /// the slice start (max - len) is symbolic, which keeps CBMC's memory model small.  Kernels do not
    /// branch on data, so which addresses are touched depends on `len` only.
    fn tail_slice(buf: &Vec<f32>, len: usize) -> &[f32] {
        let n = buf.len();
        &buf[n - len..]
    }

    pub fn binary_body(kernel: fn(&[f32], &[f32]) -> f32, max: usize, witness: bool) {
        let len: usize = kani::any();
        kani::assume(len >= 1 && len <= max);
        let ba = vec![0.5f32; max];
        let bb = vec![0.25f32; max];
        let r = kernel(tail_slice(&ba, len), tail_slice(&bb, len));
        if witness {
            kani::cover!(len == max, "longest length reachable");
            kani::cover!(len == 1, "shortest length reachable");
        }
        let _ = r;
    }

    pub fn unary_body(kernel: fn(&[f32]) -> f32, max: usize, witness: bool) {
        let len: usize = kani::any();
        kani::assume(len >= 1 && len <= max);
        let ba = vec![0.5f32; max];
        let r = kernel(tail_slice(&ba, len));
        if witness {
            kani::cover!(len == max, "longest length reachable");
            kani::cover!(len == 1, "shortest length reachable");
        }
        let _ = r;
    }

    pub fn triple_body(kernel: fn(&[f32], &[f32]) -> (f32, f32, f32), max: usize, witness: bool) {
        let len: usize = kani::any();
        kani::assume(len >= 1 && len <= max);
        let ba = vec![0.5f32; max];
        let bb = vec![0.25f32; max];
        let r = kernel(tail_slice(&ba, len), tail_slice(&bb, len));
        if witness {
            kani::cover!(len == max, "longest length reachable");
            kani::cover!(len == 1, "shortest length reachable");
        }
        let _ = r;
    }
}

macro_rules! c17_kernel {
    ($name:ident, $wname:ident, $body:ident, $entry:ident, $max:expr, $unw:expr) => {
        #[cfg(target_arch = "x86_64")]
        #[kani::proof]
        #[kani::unwind($unw)]
        #[kani::stub(std::arch::x86_64::_mm256_fmadd_ps, crate::simd::verif_proofs::x86::fmadd256)]
        #[kani::stub(std::arch::x86_64::_mm512_fmadd_ps, crate::simd::verif_proofs::x86::fmadd512)]
        #[kani::stub(std::arch::x86_64::_mm512_add_ps, crate::simd::verif_proofs::x86::add512)]
        #[kani::stub(std::arch::x86_64::_mm512_sub_ps, crate::simd::verif_proofs::x86::sub512)]
        #[kani::stub(std::arch::x86_64::_mm256_add_ps, crate::simd::verif_proofs::x86::add256)]
        #[kani::stub(std::arch::x86_64::_mm256_sub_ps, crate::simd::verif_proofs::x86::sub256)]
        #[kani::stub(std::arch::x86_64::_mm_add_ps, crate::simd::verif_proofs::x86::add128)]
        #[kani::stub(std::arch::x86_64::_mm_mul_ps, crate::simd::verif_proofs::x86::add128)]
        #[kani::stub(std::arch::x86_64::_mm_sub_ps, crate::simd::verif_proofs::x86::add128)]
        fn $name() {
            x86::$body($entry, $max, false);
        }
        #[cfg(target_arch = "x86_64")]
        #[kani::proof]
        #[kani::unwind($unw)]
        #[kani::stub(std::arch::x86_64::_mm256_fmadd_ps, crate::simd::verif_proofs::x86::fmadd256)]
        #[kani::stub(std::arch::x86_64::_mm512_fmadd_ps, crate::simd::verif_proofs::x86::fmadd512)]
        #[kani::stub(std::arch::x86_64::_mm512_add_ps, crate::simd::verif_proofs::x86::add512)]
        #[kani::stub(std::arch::x86_64::_mm512_sub_ps, crate::simd::verif_proofs::x86::sub512)]
        #[kani::stub(std::arch::x86_64::_mm256_add_ps, crate::simd::verif_proofs::x86::add256)]
        #[kani::stub(std::arch::x86_64::_mm256_sub_ps, crate::simd::verif_proofs::x86::sub256)]
        #[kani::stub(std::arch::x86_64::_mm_add_ps, crate::simd::verif_proofs::x86::add128)]
        #[kani::stub(std::arch::x86_64::_mm_mul_ps, crate::simd::verif_proofs::x86::add128)]
        #[kani::stub(std::arch::x86_64::_mm_sub_ps, crate::simd::verif_proofs::x86::add128)]
        fn $wname() {
            x86::$body($entry, $max, true);
        }
    };
}

// quick: lengths 1 ..= 2W+3 (single-chunk loop twice + every tail length); *_full (thorough): 1 ..= 4W+W+3 (also the 4x-unrolled loop)
c17_kernel!(c17_o1_dot_sse2, c17_o1_dot_sse2__witness, binary_body, dot_f32_sse2_entry, 11, 13);
c17_kernel!(c17_o1_dot_sse2_full, c17_o1_dot_sse2_full__witness, binary_body, dot_f32_sse2_entry, 23, 25);
c17_kernel!(c17_o1_sumsq_sse2, c17_o1_sumsq_sse2__witness, unary_body, sum_squares_f32_sse2_entry, 11, 13);
c17_kernel!(c17_o1_sumsq_sse2_full, c17_o1_sumsq_sse2_full__witness, unary_body, sum_squares_f32_sse2_entry, 23, 25);
c17_kernel!(c17_o1_l2_sse2, c17_o1_l2_sse2__witness, binary_body, l2_distance_sq_f32_sse2_entry, 11, 13);
c17_kernel!(c17_o1_l2_sse2_full, c17_o1_l2_sse2_full__witness, binary_body, l2_distance_sq_f32_sse2_entry, 23, 25);
c17_kernel!(c17_o1_dotnorms_sse2, c17_o1_dotnorms_sse2__witness, triple_body, dot_and_norms_f32_sse2_entry, 11, 13);
c17_kernel!(c17_o1_dotnorms_sse2_full, c17_o1_dotnorms_sse2_full__witness, triple_body, dot_and_norms_f32_sse2_entry, 23, 25);
c17_kernel!(c17_o1_dot_avx2, c17_o1_dot_avx2__witness, binary_body, dot_f32_avx2_entry, 19, 21);
c17_kernel!(c17_o1_dot_avx2_full, c17_o1_dot_avx2_full__witness, binary_body, dot_f32_avx2_entry, 43, 45);
c17_kernel!(c17_o1_sumsq_avx2, c17_o1_sumsq_avx2__witness, unary_body, sum_squares_f32_avx2_entry, 19, 21);
c17_kernel!(c17_o1_sumsq_avx2_full, c17_o1_sumsq_avx2_full__witness, unary_body, sum_squares_f32_avx2_entry, 43, 45);
c17_kernel!(c17_o1_l2_avx2, c17_o1_l2_avx2__witness, binary_body, l2_distance_sq_f32_avx2_entry, 19, 21);
c17_kernel!(c17_o1_l2_avx2_full, c17_o1_l2_avx2_full__witness, binary_body, l2_distance_sq_f32_avx2_entry, 43, 45);
c17_kernel!(c17_o1_dotnorms_avx2, c17_o1_dotnorms_avx2__witness, triple_body, dot_and_norms_f32_avx2_entry, 19, 21);
c17_kernel!(c17_o1_dotnorms_avx2_full, c17_o1_dotnorms_avx2_full__witness, triple_body, dot_and_norms_f32_avx2_entry, 43, 45);
c17_kernel!(c17_o1_dot_avx512, c17_o1_dot_avx512__witness, binary_body, dot_f32_avx512_entry, 35, 37);
c17_kernel!(c17_o1_dot_avx512_full, c17_o1_dot_avx512_full__witness, binary_body, dot_f32_avx512_entry, 83, 85);
c17_kernel!(c17_o1_sumsq_avx512, c17_o1_sumsq_avx512__witness, unary_body, sum_squares_f32_avx512_entry, 35, 37);
c17_kernel!(c17_o1_sumsq_avx512_full, c17_o1_sumsq_avx512_full__witness, unary_body, sum_squares_f32_avx512_entry, 83, 85);
c17_kernel!(c17_o1_l2_avx512, c17_o1_l2_avx512__witness, binary_body, l2_distance_sq_f32_avx512_entry, 35, 37);
c17_kernel!(c17_o1_l2_avx512_full, c17_o1_l2_avx512_full__witness, binary_body, l2_distance_sq_f32_avx512_entry, 83, 85);
c17_kernel!(c17_o1_dotnorms_avx512, c17_o1_dotnorms_avx512__witness, triple_body, dot_and_norms_f32_avx512_entry, 35, 37);
c17_kernel!(c17_o1_dotnorms_avx512_full, c17_o1_dotnorms_avx512_full__witness, triple_body, dot_and_norms_f32_avx512_entry, 83, 85);

// -------------------------------------------------------------------------------------------
// C06 O6.8 — lane coverage of the AVX-512 kernels: every input lane of the 16-lane chunks is consumed exactly once and
// a[i] is paired with b[i].  Values are irrelevant to *which* lanes are read, so the arithmetic intrinsics are replaced
// by an exact integer model on bit patterns restricted to {0, 1}:   sub -> a XOR b,   fmadd(x, y, acc) -> acc + (x AND y),
// add -> a + b  (32-bit lane-wise).  Loads, stores, the loop structure and the offset arithmetic are the real code.  The
// final horizontal reduction is the kernel's own f32 sum over the stored lanes: the lane counters are tiny bit patterns
// (denormals), whose f32 sum is exact, so the returned bits are the number of lanes i < len with f(a_i, b_i) = 1 —
// compared with the count computed directly from the two input masks.  Lengths: 32 (two left-over chunks; 19 s) and, in the
// thorough tier, 48 (three; 13 min); the 4x-unrolled loop (length >= 64) and the scalar tail are outside (cost).
// -------------------------------------------------------------------------------------------
#[cfg(target_arch = "x86_64")]
pub(crate) mod lanes {
    use std::arch::x86_64::*;

    fn l(v: __m512) -> [u32; 16] {
        unsafe { core::mem::transmute(v) }
    }
    fn m(x: [u32; 16]) -> __m512 {
        unsafe { core::mem::transmute(x) }
    }
    pub fn sub512(a: __m512, b: __m512) -> __m512 {
        let (a, b) = (l(a), l(b));
        let mut o = [0u32; 16];
        let mut i = 0;
        while i < 16 {
            o[i] = a[i] ^ b[i];
            i += 1;
        }
        m(o)
    }
    pub fn fmadd512(x: __m512, y: __m512, acc: __m512) -> __m512 {
        let (x, y, c) = (l(x), l(y), l(acc));
        let mut o = [0u32; 16];
        let mut i = 0;
        while i < 16 {
            o[i] = c[i].wrapping_add(x[i] & y[i]);
            i += 1;
        }
        m(o)
    }
    pub fn add512(a: __m512, b: __m512) -> __m512 {
        let (a, b) = (l(a), l(b));
        let mut o = [0u32; 16];
        let mut i = 0;
        while i < 16 {
            o[i] = a[i].wrapping_add(b[i]);
            i += 1;
        }
        m(o)
    }

    fn l8(v: __m256) -> [u32; 8] {
        unsafe { core::mem::transmute(v) }
    }
    fn m8(x: [u32; 8]) -> __m256 {
        unsafe { core::mem::transmute(x) }
    }
    pub fn sub256(a: __m256, b: __m256) -> __m256 {
        let (a, b) = (l8(a), l8(b));
        let mut o = [0u32; 8];
        let mut i = 0;
        while i < 8 {
            o[i] = a[i] ^ b[i];
            i += 1;
        }
        m8(o)
    }
    pub fn fmadd256(x: __m256, y: __m256, acc: __m256) -> __m256 {
        let (x, y, c) = (l8(x), l8(y), l8(acc));
        let mut o = [0u32; 8];
        let mut i = 0;
        while i < 8 {
            o[i] = c[i].wrapping_add(x[i] & y[i]);
            i += 1;
        }
        m8(o)
    }
    pub fn add256(a: __m256, b: __m256) -> __m256 {
        let (a, b) = (l8(a), l8(b));
        let mut o = [0u32; 8];
        let mut i = 0;
        while i < 8 {
            o[i] = a[i].wrapping_add(b[i]);
            i += 1;
        }
        m8(o)
    }

    pub const MAXL: usize = 80;

    /// (a, b, len, mask_a, mask_b): lanes hold bit pattern 0 or 1 taken from two arbitrary masks; the length is concrete per
    /// harness instance (a symbolic slice length made CBMC run out of memory on the pointer arithmetic of the loads).
    pub fn inputs(chunks: usize) -> ([f32; MAXL], [f32; MAXL], usize, u128, u128) {
        let (ma, mb): (u128, u128) = (kani::any(), kani::any());
        let mut a = [0.0f32; MAXL];
        let mut b = [0.0f32; MAXL];
        let mut i = 0;
        while i < MAXL {
            a[i] = f32::from_bits(((ma >> i) & 1) as u32);
            b[i] = f32::from_bits(((mb >> i) & 1) as u32);
            i += 1;
        }
        (a, b, chunks * 16, ma, mb)
    }

    pub fn low(mask: u128, len: usize) -> u128 {
        mask & ((1u128 << len) - 1)
    }
}

macro_rules! c06_lanes {
    ($name:ident, $wname:ident, $body:ident, $chunks:expr) => {
        #[cfg(target_arch = "x86_64")]
        #[kani::proof]
        #[kani::unwind(82)]
        #[kani::stub(std::arch::x86_64::_mm512_fmadd_ps, crate::simd::verif_proofs::lanes::fmadd512)]
        #[kani::stub(std::arch::x86_64::_mm512_add_ps, crate::simd::verif_proofs::lanes::add512)]
        #[kani::stub(std::arch::x86_64::_mm512_sub_ps, crate::simd::verif_proofs::lanes::sub512)]
        fn $name() {
            $body($chunks, false);
        }
        #[cfg(target_arch = "x86_64")]
        #[kani::proof]
        #[kani::unwind(82)]
        #[kani::stub(std::arch::x86_64::_mm512_fmadd_ps, crate::simd::verif_proofs::lanes::fmadd512)]
        #[kani::stub(std::arch::x86_64::_mm512_add_ps, crate::simd::verif_proofs::lanes::add512)]
        #[kani::stub(std::arch::x86_64::_mm512_sub_ps, crate::simd::verif_proofs::lanes::sub512)]
        fn $wname() {
            $body($chunks, true);
        }
    };
}

#[cfg(target_arch = "x86_64")]
fn lanes_l2_body(chunks: usize, witness: bool) {
    let (a, b, len, ma, mb) = lanes::inputs(chunks);
    let got = l2_distance_sq_f32_avx512_entry(&a[..len], &b[..len]);
    if witness {
        kani::cover!(got.to_bits() > 1, "more than one lane pair differs");
        return;
    }
    assert!(got.to_bits() == lanes::low(ma ^ mb, len).count_ones(), "C06: AVX-512 L2 kernel consumes every lane pair (a[i], b[i]) of the 16-lane chunks exactly once");
}
#[cfg(target_arch = "x86_64")]
fn lanes_dot_body(chunks: usize, witness: bool) {
    let (a, b, len, ma, mb) = lanes::inputs(chunks);
    let got = dot_f32_avx512_entry(&a[..len], &b[..len]);
    if witness {
        kani::cover!(got.to_bits() > 1, "more than one product set");
        return;
    }
    assert!(got.to_bits() == lanes::low(ma & mb, len).count_ones(), "C06: AVX-512 dot kernel consumes every lane pair (a[i], b[i]) of the 16-lane chunks exactly once");
}
#[cfg(target_arch = "x86_64")]
fn lanes_sumsq_body(chunks: usize, witness: bool) {
    let (a, _b, len, ma, _mb) = lanes::inputs(chunks);
    let got = sum_squares_f32_avx512_entry(&a[..len]);
    if witness {
        kani::cover!(got.to_bits() > 1, "more than one lane set");
        return;
    }
    assert!(got.to_bits() == lanes::low(ma, len).count_ones(), "C06: AVX-512 sum-of-squares kernel consumes every lane of the 16-lane chunks exactly once");
}
c06_lanes!(c06_o8_lanes_l2_avx512_c2, c06_o8_lanes_l2_avx512_c2__witness, lanes_l2_body, 2);
c06_lanes!(c06_o8_lanes_l2_avx512_c3, c06_o8_lanes_l2_avx512_c3__witness, lanes_l2_body, 3);
c06_lanes!(c06_o8_lanes_dot_avx512_c2, c06_o8_lanes_dot_avx512_c2__witness, lanes_dot_body, 2);
c06_lanes!(c06_o8_lanes_sumsq_avx512_c2, c06_o8_lanes_sumsq_avx512_c2__witness, lanes_sumsq_body, 2);

// the same for the AVX2 kernels (8-lane chunks): lengths 16 and 24 (two / three left-over chunks)
macro_rules! c06_lanes256 {
    ($name:ident, $wname:ident, $body:ident, $len:expr) => {
        #[cfg(target_arch = "x86_64")]
        #[kani::proof]
        #[kani::unwind(82)]
        #[kani::stub(std::arch::x86_64::_mm256_fmadd_ps, crate::simd::verif_proofs::lanes::fmadd256)]
        #[kani::stub(std::arch::x86_64::_mm256_add_ps, crate::simd::verif_proofs::lanes::add256)]
        #[kani::stub(std::arch::x86_64::_mm256_sub_ps, crate::simd::verif_proofs::lanes::sub256)]
        fn $name() {
            $body($len, false);
        }
        #[cfg(target_arch = "x86_64")]
        #[kani::proof]
        #[kani::unwind(82)]
        #[kani::stub(std::arch::x86_64::_mm256_fmadd_ps, crate::simd::verif_proofs::lanes::fmadd256)]
        #[kani::stub(std::arch::x86_64::_mm256_add_ps, crate::simd::verif_proofs::lanes::add256)]
        #[kani::stub(std::arch::x86_64::_mm256_sub_ps, crate::simd::verif_proofs::lanes::sub256)]
        fn $wname() {
            $body($len, true);
        }
    };
}
#[cfg(target_arch = "x86_64")]
fn lanes256_l2_body(len: usize, witness: bool) {
    let (a, b, _l, ma, mb) = lanes::inputs(0);
    let got = l2_distance_sq_f32_avx2_entry(&a[..len], &b[..len]);
    if witness {
        kani::cover!(got.to_bits() > 1, "more than one lane pair differs");
        return;
    }
    assert!(got.to_bits() == lanes::low(ma ^ mb, len).count_ones(), "C06: AVX2 L2 kernel consumes every lane pair (a[i], b[i]) of the 8-lane chunks exactly once");
}
#[cfg(target_arch = "x86_64")]
fn lanes256_dot_body(len: usize, witness: bool) {
    let (a, b, _l, ma, mb) = lanes::inputs(0);
    let got = dot_f32_avx2_entry(&a[..len], &b[..len]);
    if witness {
        kani::cover!(got.to_bits() > 1, "more than one product set");
        return;
    }
    assert!(got.to_bits() == lanes::low(ma & mb, len).count_ones(), "C06: AVX2 dot kernel consumes every lane pair (a[i], b[i]) of the 8-lane chunks exactly once");
}
c06_lanes256!(c06_o8_lanes_l2_avx2_c2, c06_o8_lanes_l2_avx2_c2__witness, lanes256_l2_body, 16);
c06_lanes256!(c06_o8_lanes_l2_avx2_c3, c06_o8_lanes_l2_avx2_c3__witness, lanes256_l2_body, 24);
c06_lanes256!(c06_o8_lanes_dot_avx2_c2, c06_o8_lanes_dot_avx2_c2__witness, lanes256_dot_body, 16);
c06_lanes256!(c06_o8_lanes_dot_avx2_c3, c06_o8_lanes_dot_avx2_c3__witness, lanes256_dot_body, 24);
