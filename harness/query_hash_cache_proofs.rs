//! C07 O7.1 — the insert-invalidation pre-filter is sound: an inserted vector that lies strictly
//! inside a cached result's distance boundary is never pruned by the pre-filter.
//! Inputs are restricted to a stated quantised grid (multiples of 1/8 in [-2, 2]) on which products
//! and short sums are exact in f32, so the oracle below is exact arithmetic; ulp-level effects are
//! outside the claim (DESIGN 1.1).
#![allow(non_snake_case)]
use super::*;

fn grid() -> f32 {
    let i: i8 = kani::any();
    kani::assume(i >= -16 && i <= 16);
    (i as f32) * 0.125
}

fn grid_nonneg() -> f32 {
    let i: i8 = kani::any();
    kani::assume(i >= 0 && i <= 32);
    (i as f32) * 0.125
}

/// Euclidean, prefix_dims = 1 < len = L: the cached boundary is the user distance `worst`
/// (a Euclidean distance); "strictly inside" is  ||q-e||^2 < worst^2  (both sides exact on the grid).
fn euclid_body<const L: usize>(witness: bool) {
    let mut q = [0.0f32; L];
    let mut e = [0.0f32; L];
    let mut d2 = 0.0f32;
    let mut i = 0;
    while i < L {
        q[i] = grid();
        e[i] = grid();
        let d = q[i] - e[i];
        d2 += d * d;
        i += 1;
    }
    let worst = grid_nonneg();
    // The Euclidean arm does not read the statistics; they are left arbitrary (finite, >= 0).
    let qs = QueryEmbeddingStats { norm: kani::any(), tail_norm: kani::any() };
    let es = QueryEmbeddingStats { norm: kani::any(), tail_norm: kani::any() };
    kani::assume(qs.norm >= 0.0 && qs.tail_norm >= 0.0 && es.norm >= 0.0 && es.tail_norm >= 0.0);
    kani::assume(qs.norm <= 8.0 && qs.tail_norm <= 8.0 && es.norm <= 8.0 && es.tail_norm <= 8.0);
    let affects = QueryHashCache::insert_can_affect_cached_boundary(&q, qs, &e, es, 1, worst, DistanceMetric::Euclidean);
    if witness {
        kani::cover!(affects && d2 > 0.0, "pre-filter says affected");
        kani::cover!(!affects, "pre-filter prunes some insert");
        return;
    }
    if d2 <= worst * worst {
        assert!(affects, "C07: an insert inside (or on) the cached distance boundary is not pruned (Euclidean)");
    }
}

#[kani::proof]
#[kani::unwind(5)]
#[kani::stub(f32::powi, crate::verif_support::powi_f32_model)]
fn c07_o1_prefilter_euclidean_l2() {
    euclid_body::<2>(false);
}
#[kani::proof]
#[kani::unwind(5)]
#[kani::stub(f32::powi, crate::verif_support::powi_f32_model)]
fn c07_o1_prefilter_euclidean_l2__witness() {
    euclid_body::<2>(true);
}
#[kani::proof]
#[kani::unwind(5)]
#[kani::stub(f32::powi, crate::verif_support::powi_f32_model)]
fn c07_o1_prefilter_euclidean_l3() {
    euclid_body::<3>(false);
}
#[kani::proof]
#[kani::unwind(5)]
#[kani::stub(f32::powi, crate::verif_support::powi_f32_model)]
fn c07_o1_prefilter_euclidean_l3__witness() {
    euclid_body::<3>(true);
}

/// Inner product, prefix_dims = 1, len = 2: boundary is user distance worst = 1 - dot_k; strictly
/// inside is  1 - q.e < worst  <=>  q.e > 1 - worst.  tail norms are |q1|, |e1| exactly on the grid, so
/// the statistics are given as those exact values (what embedding_stats computes with a correctly
/// rounded sqrt); margin 1/64 keeps rounding ties out.
fn ip_body(witness: bool) {
    let q = [grid(), grid()];
    let e = [grid(), grid()];
    let dot = q[0] * e[0] + q[1] * e[1];
    let worst = {
        let i: i8 = kani::any();
        kani::assume(i >= -32 && i <= 48);
        (i as f32) * 0.125
    };
    let abs = |x: f32| if x < 0.0 { -x } else { x };
    let qs = QueryEmbeddingStats { norm: kani::any(), tail_norm: abs(q[1]) };
    let es = QueryEmbeddingStats { norm: kani::any(), tail_norm: abs(e[1]) };
    let affects = QueryHashCache::insert_can_affect_cached_boundary(&q, qs, &e, es, 1, worst, DistanceMetric::InnerProduct);
    if witness {
        kani::cover!(affects && dot != 0.0, "pre-filter says affected");
        kani::cover!(!affects, "pre-filter prunes some insert");
        return;
    }
    if 1.0 - dot <= worst {
        assert!(affects, "C07: an insert inside (or on) the cached distance boundary is not pruned (inner product)");
    }
}

#[kani::proof]
#[kani::unwind(5)]
fn c07_o1_prefilter_inner_product_l2() {
    ip_body(false);
}
#[kani::proof]
#[kani::unwind(5)]
fn c07_o1_prefilter_inner_product_l2__witness() {
    ip_body(true);
}

/// Cosine, prefix_dims = 1, len = 2, coarser grid (multiples of 1/4 in [-2,2]) so that the oracle's
/// squared quantities are exact in f32.  The statistics come from the real `embedding_stats`.
/// Oracle (exact, sqrt-free): let t = 1 - worst, D = q.e, N = |q|^2 |e|^2 > 0.
///   strictly inside  <=>  D/sqrt(N) > t, decided by signs and squares:
///     t < 0, D >= 0                         -> inside
///     t < 0, D <  0, D^2 (1+2^-8) < t^2 N   -> inside (with margin)
///     t >= 0, D > 0, D^2 > t^2 N (1+2^-8)   -> inside (with margin)
fn grid4() -> f32 {
    let i: i8 = kani::any();
    kani::assume(i >= -8 && i <= 8);
    (i as f32) * 0.25
}

fn cosine_body(witness: bool) {
    let q = [grid4(), grid4()];
    let e = [grid4(), grid4()];
    let d = q[0] * e[0] + q[1] * e[1];
    let nq = q[0] * q[0] + q[1] * q[1];
    let ne = e[0] * e[0] + e[1] * e[1];
    kani::assume(nq > 0.0 && ne > 0.0);
    let n = nq * ne;
    let worst = {
        let i: i8 = kani::any();
        kani::assume(i >= 0 && i <= 8); // cosine distance in [0, 2]
        (i as f32) * 0.25
    };
    let t = 1.0 - worst;
    let qs = QueryHashCache::embedding_stats(&q, 1);
    let es = QueryHashCache::embedding_stats(&e, 1);
    let affects = QueryHashCache::insert_can_affect_cached_boundary(&q, qs, &e, es, 1, worst, DistanceMetric::Cosine);
    if witness {
        kani::cover!(affects && d < 0.0 && t < 0.0, "obtuse insert inside an obtuse boundary");
        kani::cover!(!affects, "pre-filter prunes some insert");
        return;
    }
    let m = 1.0 + 0.00390625; // 1 + 2^-8
    let inside = if t < 0.0 {
        d >= 0.0 || (d * d) * m < (t * t) * n
    } else {
        d > 0.0 && (d * d) > (t * t) * n * m
    };
    if inside {
        assert!(affects, "C07: an insert strictly inside the cached distance boundary is not pruned (cosine)");
    }
}

#[kani::proof]
#[kani::unwind(5)]
fn c07_o1_prefilter_cosine_l2() {
    cosine_body(false);
}
#[kani::proof]
#[kani::unwind(5)]
fn c07_o1_prefilter_cosine_l2__witness() {
    cosine_body(true);
}
