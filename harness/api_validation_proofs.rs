//! C15 — request validators.  Child module of `api_validation.rs` (overlay, cfg(kani)).
#![allow(non_snake_case)]
use super::*;
use crate::proto::{metadata_filter::FilterType, ExactMatch, InsertRequest, MetadataFilter, SearchRequest};

const MAXLEN: usize = 3;

fn any_vec() -> (Vec<f32>, [f32; MAXLEN], usize) {
    let len: usize = kani::any();
    kani::assume(len <= MAXLEN);
    let a: [f32; MAXLEN] = kani::any();
    let mut v = Vec::with_capacity(MAXLEN);
    let mut i = 0;
    while i < len {
        v.push(a[i]);
        i += 1;
    }
    (v, a, len)
}

fn all_finite(a: &[f32; MAXLEN], len: usize) -> bool {
    let mut i = 0;
    let mut ok = true;
    while i < MAXLEN {
        if i < len && !(a[i] == a[i] && a[i] != f32::INFINITY && a[i] != f32::NEG_INFINITY) {
            ok = false;
        }
        i += 1;
    }
    ok
}

/// namespace / filter presence are concrete per harness instance so that the oversampling factor
/// is a constant (a symbolic 64x64 saturating multiplication stalls the bit-blaster).
fn search_body(ns: bool, with_filter: bool, witness: bool) {
    let (v, a, len) = any_vec();
    let k: u32 = kani::any();
    let ef: u32 = kani::any();
    let req = SearchRequest {
        query_embedding: v,
        k,
        min_score: kani::any(),
        namespace: if ns { String::from("n") } else { String::new() },
        include_embeddings: kani::any(),
        ef_search: ef,
        filter: if with_filter {
            Some(MetadataFilter { filter_type: Some(FilterType::Exact(ExactMatch { key: String::from("a"), value: String::from("b") })) })
        } else {
            None
        },
        metadata_filters: std::collections::HashMap::new(),
    };
    let r = validate_search_request(&req);
    let expect_ok = len >= 1 && all_finite(&a, len) && k >= 1 && k <= 1000 && ef <= 10_000;
    if witness {
        kani::cover!(r.is_ok() && len == MAXLEN, "accepting path reachable");
        kani::cover!(r.is_err() && len >= 1 && k >= 1, "rejecting path reachable");
        std::mem::forget(r);
        std::mem::forget(req);
        return;
    }
    assert!(r.is_ok() == expect_ok, "C15: search request accepted iff non-empty, finite, 1<=k<=1000, ef<=10000");
    if let Ok(plan) = &r {
        assert!(plan.search_k >= k as usize && plan.search_k <= 10_000, "C15: k <= search_k <= 10000");
        assert!(plan.ef_search_override == if ef == 0 { None } else { Some(ef as usize) }, "C15: ef override");
    }
    std::mem::forget(r);
    std::mem::forget(req);
}

#[kani::proof]
#[kani::unwind(5)]
#[kani::stub(std::fmt::format, crate::verif_support::fmt_format_stub)]
#[kani::stub(std::hash::RandomState::new, crate::verif_support::random_state_new_stub)]
fn c15_o1_validate_search_plain() {
    search_body(false, false, false);
}

#[kani::proof]
#[kani::unwind(5)]
#[kani::stub(std::fmt::format, crate::verif_support::fmt_format_stub)]
#[kani::stub(std::hash::RandomState::new, crate::verif_support::random_state_new_stub)]
fn c15_o1_validate_search_plain__witness() {
    search_body(false, false, true);
}

#[kani::proof]
#[kani::unwind(5)]
#[kani::stub(std::fmt::format, crate::verif_support::fmt_format_stub)]
#[kani::stub(std::hash::RandomState::new, crate::verif_support::random_state_new_stub)]
fn c15_o1_validate_search_ns() {
    search_body(true, false, false);
}

#[kani::proof]
#[kani::unwind(5)]
#[kani::stub(std::fmt::format, crate::verif_support::fmt_format_stub)]
#[kani::stub(std::hash::RandomState::new, crate::verif_support::random_state_new_stub)]
fn c15_o1_validate_search_ns__witness() {
    search_body(true, false, true);
}

#[kani::proof]
#[kani::unwind(5)]
#[kani::stub(std::fmt::format, crate::verif_support::fmt_format_stub)]
#[kani::stub(std::hash::RandomState::new, crate::verif_support::random_state_new_stub)]
fn c15_o1_validate_search_filter() {
    search_body(false, true, false);
}

#[kani::proof]
#[kani::unwind(5)]
#[kani::stub(std::fmt::format, crate::verif_support::fmt_format_stub)]
#[kani::stub(std::hash::RandomState::new, crate::verif_support::random_state_new_stub)]
fn c15_o1_validate_search_filter__witness() {
    search_body(false, true, true);
}

#[kani::proof]
#[kani::unwind(5)]
#[kani::stub(std::fmt::format, crate::verif_support::fmt_format_stub)]
#[kani::stub(std::hash::RandomState::new, crate::verif_support::random_state_new_stub)]
fn c15_o1_validate_search_ns_filter() {
    search_body(true, true, false);
}

#[kani::proof]
#[kani::unwind(5)]
#[kani::stub(std::fmt::format, crate::verif_support::fmt_format_stub)]
#[kani::stub(std::hash::RandomState::new, crate::verif_support::random_state_new_stub)]
fn c15_o1_validate_search_ns_filter__witness() {
    search_body(true, true, true);
}

fn insert_body(witness: bool) {
    let (v, a, len) = any_vec();
    let doc_id: u64 = kani::any();
    let req = InsertRequest { doc_id, embedding: v, metadata: std::collections::HashMap::new(), namespace: String::new() };
    let r = validate_insert_request(&req);
    let expect_ok = doc_id >= 1 && len >= 1 && all_finite(&a, len);
    if witness {
        kani::cover!(r.is_ok() && len == MAXLEN, "accepting path reachable");
        kani::cover!(r.is_err() && doc_id >= 1 && len >= 1, "non-finite rejection reachable");
        std::mem::forget(r);
        std::mem::forget(req);
        return;
    }
    assert!(r.is_ok() == expect_ok, "C15: insert request accepted iff doc_id>=1, non-empty, all finite");
    std::mem::forget(r);
    std::mem::forget(req);
}

#[kani::proof]
#[kani::unwind(5)]
#[kani::stub(std::fmt::format, crate::verif_support::fmt_format_stub)]
#[kani::stub(std::hash::RandomState::new, crate::verif_support::random_state_new_stub)]
fn c15_o2_validate_insert() {
    insert_body(false);
}

#[kani::proof]
#[kani::unwind(5)]
#[kani::stub(std::fmt::format, crate::verif_support::fmt_format_stub)]
#[kani::stub(std::hash::RandomState::new, crate::verif_support::random_state_new_stub)]
fn c15_o2_validate_insert__witness() {
    insert_body(true);
}

/// Dimension limit: 4096 accepted, 4097 refused (concrete zero vectors; the symbolic part is k/ef).
fn dim_limit_body(witness: bool) {
    let over: bool = kani::any();
    let n = if over { MAX_EMBEDDING_DIM + 1 } else { MAX_EMBEDDING_DIM };
    let req = InsertRequest { doc_id: 1, embedding: vec![0.5f32; n], metadata: std::collections::HashMap::new(), namespace: String::new() };
    let r = validate_insert_request(&req);
    if witness {
        kani::cover!(r.is_ok(), "4096 accepted reachable");
        kani::cover!(r.is_err(), "4097 refused reachable");
        std::mem::forget(r);
        std::mem::forget(req);
        return;
    }
    assert!(r.is_ok() == !over, "C15: embedding length limit is exactly 4096");
    std::mem::forget(r);
    std::mem::forget(req);
}

#[kani::proof]
#[kani::unwind(4100)]
#[kani::stub(std::fmt::format, crate::verif_support::fmt_format_stub)]
#[kani::stub(std::hash::RandomState::new, crate::verif_support::random_state_new_stub)]
fn c15_o2_insert_dim_limit() {
    dim_limit_body(false);
}

#[kani::proof]
#[kani::unwind(4100)]
#[kani::stub(std::fmt::format, crate::verif_support::fmt_format_stub)]
#[kani::stub(std::hash::RandomState::new, crate::verif_support::random_state_new_stub)]
fn c15_o2_insert_dim_limit__witness() {
    dim_limit_body(true);
}
