//! C15 O15.3 — calculate_oversampling_factor never panics (division by zero, overflow) and stays in
//! [1, 50] for every filter tree of depth <= 2, including untyped (`filter_type: None`) nodes and
//! empty / all-untyped AND / OR lists.
#![allow(non_snake_case)]
use super::*;
use crate::proto::{AndFilter, ExactMatch, InMatch, NotFilter, OrFilter, RangeMatch};

/// A leaf: untyped, Exact, Range (no bound), or In with 0..=6 values (cardinality classes 0,1,2,3,5,6).
fn leaf() -> MetadataFilter {
    let k: u8 = kani::any();
    kani::assume(k < 4);
    let ft = match k {
        0 => None,
        1 => Some(FilterType::Exact(ExactMatch { key: String::new(), value: String::new() })),
        2 => Some(FilterType::Range(RangeMatch { key: String::new(), bound: None })),
        _ => {
            let n: u8 = kani::any();
            kani::assume(n < 4);
            let values = match n {
                0 => Vec::new(),
                1 => vec![String::new()],
                2 => vec![String::new(), String::new(), String::new()],
                _ => vec![String::new(), String::new(), String::new(), String::new(), String::new(), String::new()],
            };
            Some(FilterType::InMatch(InMatch { key: String::new(), values }))
        }
    };
    MetadataFilter { filter_type: ft }
}

fn children() -> Vec<MetadataFilter> {
    let n: u8 = kani::any();
    kani::assume(n < 3);
    match n {
        0 => Vec::new(),
        1 => vec![leaf()],
        _ => vec![leaf(), leaf()],
    }
}

fn tree(kind: u8) -> MetadataFilter {
    let ft = match kind {
        0 => return leaf(),
        1 => FilterType::AndFilter(AndFilter { filters: children() }),
        2 => FilterType::OrFilter(OrFilter { filters: children() }),
        3 => FilterType::NotFilter(Box::new(NotFilter { filter: None })),
        4 => FilterType::NotFilter(Box::new(NotFilter { filter: Some(Box::new(leaf())) })),
        5 => FilterType::NotFilter(Box::new(NotFilter { filter: Some(Box::new(MetadataFilter { filter_type: Some(FilterType::OrFilter(OrFilter { filters: children() })) })) })),
        _ => FilterType::AndFilter(AndFilter { filters: vec![MetadataFilter { filter_type: Some(FilterType::OrFilter(OrFilter { filters: children() })) }, leaf()] }),
    };
    MetadataFilter { filter_type: Some(ft) }
}

macro_rules! oversampling_harness {
    ($name:ident, $wname:ident, $kind:expr) => {
        #[kani::proof]
        #[kani::unwind(8)]
        fn $name() {
            let f = tree($kind);
            let r = calculate_oversampling_factor(&f);
            assert!(r >= 1 && r <= 50, "C15: oversampling factor in [1, 50]");
            std::mem::forget(f);
        }
        #[kani::proof]
        #[kani::unwind(8)]
        fn $wname() {
            let f = tree($kind);
            let r = calculate_oversampling_factor(&f);
            kani::cover!(r >= 1, "factor computed");
            std::mem::forget(f);
        }
    };
}

oversampling_harness!(c15_o3_oversampling_leaf, c15_o3_oversampling_leaf__witness, 0);
oversampling_harness!(c15_o3_oversampling_and, c15_o3_oversampling_and__witness, 1);
oversampling_harness!(c15_o3_oversampling_or, c15_o3_oversampling_or__witness, 2);
oversampling_harness!(c15_o3_oversampling_not_none, c15_o3_oversampling_not_none__witness, 3);
oversampling_harness!(c15_o3_oversampling_not_leaf, c15_o3_oversampling_not_leaf__witness, 4);
oversampling_harness!(c15_o3_oversampling_not_or, c15_o3_oversampling_not_or__witness, 5);
oversampling_harness!(c15_o3_oversampling_and_or, c15_o3_oversampling_and_or__witness, 6);
