//! hnsw_index.rs: an index with a no-op ANN backend, to reach the real validation code of
//! `add_vector` without building a graph.
#![allow(non_snake_case)]
use super::*;

pub(crate) struct NoopBackend;

impl crate::ann_backend::AnnBackend for NoopBackend {
    fn name(&self) -> &'static str {
        "noop"
    }
    fn insert(&self, _embedding: &[f32], _origin_id: usize) {}
    fn parallel_insert_slice(&self, _batch: &[(&[f32], usize)]) {}
    fn search_with_cancel(
        &self,
        _query: &[f32],
        _k: usize,
        _ef_search: usize,
        _cancelled: Option<&std::sync::atomic::AtomicBool>,
    ) -> Vec<SearchResult> {
        Vec::new()
    }
}

pub(crate) fn index_with_noop_backend(dimension: usize, max_elements: usize, current_count: usize, distance: DistanceMetric, disable_normalization_check: bool) -> HnswVectorIndex {
    HnswVectorIndex {
        backend: Box::new(NoopBackend),
        backend_name: "noop",
        dimension,
        max_elements,
        current_count,
        distance,
        m: 16,
        ef_construction: 200,
        disable_normalization_check,
    }
}
