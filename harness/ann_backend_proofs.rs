//! ann_backend.rs kernels: ranking orders + SearchHeap (C06), unsafe accessors (C17).
#![allow(non_snake_case)]
use super::*;
use std::cmp::Ordering as O;

// -------------------------------------------------------------------------------------------
// C06 O6.3: orderings used for ranking are total orders consistent with numeric distance
// -------------------------------------------------------------------------------------------
fn rev(o: O) -> O {
    match o {
        O::Less => O::Greater,
        O::Greater => O::Less,
        O::Equal => O::Equal,
    }
}

macro_rules! total_order_harness {
    ($name:ident, $wname:ident, $ty:ident, $field:ident) => {
        fn $name() {
            let a = $ty { $field: kani::any(), dense_id: kani::any() };
            let b = $ty { $field: kani::any(), dense_id: kani::any() };
            let c = $ty { $field: kani::any(), dense_id: kani::any() };
            assert!(a.cmp(&a) == O::Equal, "C06: reflexive");
            assert!(a.cmp(&b) == rev(b.cmp(&a)), "C06: antisymmetric");
            if a.cmp(&b) != O::Greater && b.cmp(&c) != O::Greater {
                assert!(a.cmp(&c) != O::Greater, "C06: transitive");
            }
            if a.cmp(&b) == O::Equal {
                assert!(a.$field.to_bits() == b.$field.to_bits() && a.dense_id == b.dense_id, "C06: Equal only for identical items");
            }
            // consistent with numeric order on comparable (non-NaN) distances
            if a.$field < b.$field {
                assert!(a.cmp(&b) == O::Less, "C06: numeric < implies Less");
            }
            assert!(a.partial_cmp(&b) == Some(a.cmp(&b)), "C06: partial_cmp agrees with cmp");
        }
        fn $wname() {
            let a = $ty { $field: kani::any(), dense_id: kani::any() };
            let b = $ty { $field: kani::any(), dense_id: kani::any() };
            kani::cover!(a.cmp(&b) == O::Less && a.$field != a.$field, "NaN item ordered");
            kani::cover!(a.cmp(&b) == O::Greater && a.$field == b.$field, "tie broken by id");
        }
    };
}

total_order_harness!(cand_order_body, cand_order_witness, CandidateHeapItem, neg_distance);
total_order_harness!(res_order_body, res_order_witness, ResultHeapItem, distance);

#[kani::proof]
#[kani::unwind(2)]
fn c06_o3_candidate_item_total_order() {
    cand_order_body();
}
#[kani::proof]
#[kani::unwind(2)]
fn c06_o3_candidate_item_total_order__witness() {
    cand_order_witness();
}
#[kani::proof]
#[kani::unwind(2)]
fn c06_o3_result_item_total_order() {
    res_order_body();
}
#[kani::proof]
#[kani::unwind(2)]
fn c06_o3_result_item_total_order__witness() {
    res_order_witness();
}

// -------------------------------------------------------------------------------------------
// C06 O6.4: SearchHeap (hand-written binary heap): pops are non-increasing, multiset preserved
// -------------------------------------------------------------------------------------------
fn heap_body<const HN: usize>(witness: bool) {
    let n: usize = kani::any();
    kani::assume(n >= 1 && n <= HN);
    let ds: [f32; HN] = kani::any();
    let ids: [u32; HN] = kani::any();
    let mut h: SearchHeap<ResultHeapItem> = SearchHeap::default();
    h.reserve(HN);
    let mut i = 0;
    while i < n {
        h.push(ResultHeapItem { distance: ds[i], dense_id: ids[i] });
        // peek is the maximum so far
        let top = *h.peek().unwrap();
        let mut j = 0;
        while j <= i {
            assert!(top.cmp(&ResultHeapItem { distance: ds[j], dense_id: ids[j] }) != O::Less, "C06: peek is the maximum");
            j += 1;
        }
        i += 1;
    }
    assert!(h.len() == n);
    let mut out: [ResultHeapItem; HN] = [ResultHeapItem { distance: 0.0, dense_id: 0 }; HN];
    let mut m = 0;
    while m < n {
        out[m] = h.pop().unwrap();
        m += 1;
    }
    assert!(h.pop().is_none(), "C06: heap empty after n pops");
    if witness {
        kani::cover!(n == HN && out[0].cmp(&out[HN - 1]) == O::Greater, "HN distinct items popped");
        return;
    }
    // non-increasing
    let mut k = 1;
    while k < n {
        assert!(out[k - 1].cmp(&out[k]) != O::Less, "C06: pops come out in non-increasing order");
        k += 1;
    }
    // multiset preserved: every input occurs among the outputs as often as among the inputs
    let mut a = 0;
    while a < n {
        let x = ResultHeapItem { distance: ds[a], dense_id: ids[a] };
        let mut cin = 0;
        let mut cout = 0;
        let mut b = 0;
        while b < n {
            if x.cmp(&ResultHeapItem { distance: ds[b], dense_id: ids[b] }) == O::Equal {
                cin += 1;
            }
            if x.cmp(&out[b]) == O::Equal {
                cout += 1;
            }
            b += 1;
        }
        assert!(cin == cout, "C06: heap preserves the multiset of items");
        a += 1;
    }
}

#[kani::proof]
#[kani::unwind(5)]
fn c06_o4_search_heap_n3() {
    heap_body::<3>(false);
}
#[kani::proof]
#[kani::unwind(5)]
fn c06_o4_search_heap_n3__witness() {
    heap_body::<3>(true);
}
#[kani::proof]
#[kani::unwind(6)]
fn c06_o4_search_heap_n4() {
    heap_body::<4>(false);
}
#[kani::proof]
#[kani::unwind(6)]
fn c06_o4_search_heap_n4__witness() {
    heap_body::<4>(true);
}

// -------------------------------------------------------------------------------------------
// C06 O6.2: metric_distance_to_user
// -------------------------------------------------------------------------------------------
fn user_distance_body(witness: bool) {
    let raw: f32 = kani::any();
    kani::assume(raw == raw);
    let e = metric_distance_to_user(DistanceMetric::Euclidean, raw);
    let c = metric_distance_to_user(DistanceMetric::Cosine, raw);
    let ip = metric_distance_to_user(DistanceMetric::InnerProduct, raw);
    if witness {
        kani::cover!(raw < 0.0 && e == 0.0, "negative raw clamps to 0");
        kani::cover!(raw > 1.0 && e > 1.0, "sqrt path");
        return;
    }
    assert!(e == e && e >= 0.0, "C06: Euclidean user distance is non-NaN and >= 0");
    assert!(c.to_bits() == raw.to_bits() && ip.to_bits() == raw.to_bits(), "C06: cosine/IP user distance is the raw distance");
    if raw <= 0.0 {
        assert!(e == 0.0, "C06: non-positive squared distance maps to 0");
    }
}

#[kani::proof]
#[kani::unwind(2)]
fn c06_o2_metric_distance_to_user() {
    user_distance_body(false);
}
#[kani::proof]
#[kani::unwind(2)]
fn c06_o2_metric_distance_to_user__witness() {
    user_distance_body(true);
}

// -------------------------------------------------------------------------------------------
// C17 O17.2: PackedLevel0 unchecked accessors stay inside `data` for arbitrary record words
// -------------------------------------------------------------------------------------------
const RW: usize = 16; // cap<=3, dim<=3 => record_words == 16

/// A two-node PackedLevel0 whose 32 data words are all arbitrary (neighbour counts, neighbour ids and
/// vector bits are free).  The struct is built field by field with the layout `PackedLevel0::new`
/// computes for these parameters (checked against the real constructor), so no allocation loop is
/// unrolled; `push_node` has its own harness below.
fn packed_setup() -> PackedLevel0 {
    let cap: usize = kani::any();
    let dim: usize = kani::any();
    kani::assume(cap >= 1 && cap <= 3 && dim >= 1 && dim <= 3);
    let shape = PackedLevel0::new(cap, dim);
    assert!(shape.record_words == RW && shape.vector_offset_words == 1 + cap && shape.cap == cap && shape.dimension == dim);
    let words: [u32; 2 * RW] = kani::any();
    PackedLevel0 { cap, dimension: dim, record_words: RW, vector_offset_words: 1 + cap, data: words.to_vec() }
}

fn push_node_body(witness: bool) {
    let mut p = PackedLevel0::new(2, 3);
    let e: [f32; 3] = kani::any();
    let id0 = p.push_node(&e);
    let id1 = p.push_node(&e);
    if witness {
        kani::cover!(id1 == 1 && p.len() == 2, "two nodes pushed");
        return;
    }
    assert!(id0 == 0 && id1 == 1, "C17: push_node returns consecutive dense ids");
    assert!(p.data.len() == p.len() * p.record_words && p.len() == 2, "C17: data.len() == len()*record_words after push_node");
    assert!(p.count(1) == Some(0) && p.neighbors(1).is_empty(), "C17: a fresh node has no neighbours");
    let v = p.vector_at(1);
    assert!(v.len() == 3 && v[0].to_bits() == e[0].to_bits() && v[2].to_bits() == e[2].to_bits(), "C17: stored vector bits");
}

#[kani::proof]
#[kani::unwind(20)]
fn c17_o2_packed_level0_push_node() {
    push_node_body(false);
}
#[kani::proof]
#[kani::unwind(20)]
fn c17_o2_packed_level0_push_node__witness() {
    push_node_body(true);
}

fn packed_body(witness: bool) {
    let p = packed_setup();
    let d: u32 = kani::any();
    kani::assume((d as usize) < p.len());
    unsafe {
        let c = p.count_unchecked(d);
        if witness {
            kani::cover!(c == p.cap && d == 1, "full neighbour list on the last node");
            kani::cover!(c == 0, "empty neighbour list");
            return;
        }
        assert!(c <= p.cap, "C17: count_unchecked <= cap");
        assert!(Some(c) == p.count(d), "C17: count_unchecked agrees with count");
        let i: usize = kani::any();
        kani::assume(i < c);
        let nb = p.neighbor_unchecked(d, i);
        assert!(nb == p.neighbors(d)[i], "C17: neighbor_unchecked agrees with neighbors()");
        let v = p.vector_at_unchecked(d);
        let vc = p.vector_at(d);
        assert!(v.len() == p.dimension && vc.len() == p.dimension);
        let mut j = 0;
        while j < 3 {
            if j < v.len() {
                assert!(v[j].to_bits() == vc[j].to_bits(), "C17: vector_at_unchecked agrees with vector_at");
            }
            j += 1;
        }
        let rp = p.record_ptr(d);
        // the whole record is inside the allocation: read its first and last byte
        let first = *rp;
        let last = *rp.add(p.record_bytes() - 1);
        let _ = (first, last);
    }
}

#[kani::proof]
#[kani::unwind(8)]
fn c17_o2_packed_level0_unchecked() {
    packed_body(false);
}
#[kani::proof]
#[kani::unwind(8)]
fn c17_o2_packed_level0_unchecked__witness() {
    packed_body(true);
}

fn packed_set_neighbors_body(witness: bool) {
    let mut p = packed_setup();
    let d: u32 = kani::any(); // may be out of range: set_neighbors must then be a no-op
    let vals: [u32; 5] = kani::any();
    let vn: usize = kani::any();
    kani::assume(vn <= 5);
    let before_len = p.data.len();
    p.set_neighbors(d, &vals[..vn]);
    if witness {
        kani::cover!((d as usize) < p.len() && vn > p.cap, "truncating set_neighbors reachable");
        kani::cover!((d as usize) >= p.len(), "out-of-range id reachable");
        return;
    }
    assert!(p.data.len() == before_len && p.data.len() == p.len() * p.record_words, "C17: set_neighbors preserves the layout invariant");
    if (d as usize) < p.len() {
        let c = p.count(d).unwrap();
        assert!(c == if vn < p.cap { vn } else { p.cap }, "C17: stored count == min(len, cap)");
        let nb = p.neighbors(d);
        let mut i = 0;
        while i < 3 {
            if i < c {
                assert!(nb[i] == vals[i], "C17: neighbours stored in order");
            }
            i += 1;
        }
    }
}

#[kani::proof]
#[kani::unwind(8)]
fn c17_o2_packed_level0_set_neighbors() {
    packed_set_neighbors_body(false);
}
#[kani::proof]
#[kani::unwind(8)]
fn c17_o2_packed_level0_set_neighbors__witness() {
    packed_set_neighbors_body(true);
}

// -------------------------------------------------------------------------------------------
// C17 O17.3: FlatSearchScratch visited bitset
// -------------------------------------------------------------------------------------------
fn scratch_body(witness: bool) {
    let node_count: usize = kani::any();
    kani::assume(node_count >= 1 && node_count <= 130);
    let mut s = FlatSearchScratch::default();
    s.prepare(node_count, 4);
    let d: u32 = kani::any();
    kani::assume((d as usize) < node_count);
    let first = unsafe { s.mark_if_unvisited_unchecked(d) };
    let second = unsafe { s.mark_if_unvisited_unchecked(d) };
    if witness {
        kani::cover!(d == 129 && first, "last word reachable");
        return;
    }
    assert!(first && !second, "C17: first mark succeeds, second is a no-op");
    let e: u32 = kani::any();
    kani::assume((e as usize) < node_count && e != d);
    let other = unsafe { s.mark_if_unvisited_unchecked(e) };
    assert!(other, "C17: marking one id does not mark another");
    std::mem::forget(s);
}

#[kani::proof]
#[kani::unwind(8)]
fn c17_o3_visited_bitset() {
    scratch_body(false);
}
#[kani::proof]
#[kani::unwind(8)]
fn c17_o3_visited_bitset__witness() {
    scratch_body(true);
}
