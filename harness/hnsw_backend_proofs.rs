//! Kernels in hnsw_backend.rs: OrderedF64 (C11), compute_search_k (C06).
#![allow(non_snake_case)]
use super::*;

// ---- C11 O11.1: OrderedF64::from_f64 is an order embedding of non-NaN f64 with +-0 identified
fn ordered_body(witness: bool) {
    let a: f64 = kani::any();
    let b: f64 = kani::any();
    kani::assume(a == a && b == b); // non-NaN (NaN bounds/values are handled before the index, O11.5)
    let ka = OrderedF64::from_f64(a);
    let kb = OrderedF64::from_f64(b);
    if witness {
        kani::cover!(a < b && a < 0.0 && b > 0.0, "mixed signs reachable");
        kani::cover!(a == b && a.to_bits() != b.to_bits(), "+0/-0 pair reachable");
        return;
    }
    assert!((a < b) == (ka < kb), "C11: a<b <=> key(a)<key(b)");
    assert!((a == b) == (ka == kb), "C11: a==b <=> key(a)==key(b)");
    assert!((a > b) == (ka > kb), "C11: a>b <=> key(a)>key(b)");
    assert!((a <= b) == (ka <= kb) && (a >= b) == (ka >= kb), "C11: <=, >= agree");
}

#[kani::proof]
#[kani::unwind(2)]
fn c11_o1_ordered_f64_embedding() {
    ordered_body(false);
}

#[kani::proof]
#[kani::unwind(2)]
fn c11_o1_ordered_f64_embedding__witness() {
    ordered_body(true);
}

// ---- C06 O6.1: compute_search_k
fn search_k_body(witness: bool) {
    let k: usize = kani::any();
    let live: usize = kani::any();
    let total: usize = kani::any();
    kani::assume(k >= 1 && k <= 10_000);
    kani::assume(live <= total);
    kani::assume(total <= (1usize << 40));
    let r = compute_search_k(k, live, total);
    if witness {
        kani::cover!(r > k && live > 0 && live < total, "oversampling path reachable");
        kani::cover!(r == k, "no oversampling reachable");
        return;
    }
    assert!(r <= 10_000, "C06: search_k <= 10000");
    let floor = if k < total { k } else { total };
    assert!(r >= floor || r >= k, "C06: search_k >= min(k,total)");
    assert!(r >= 1, "C06: search_k >= 1");
    // never fewer candidates than requested when enough slots exist, and oversampling only when
    // tombstones exist
    if total >= k {
        assert!(r >= k, "C06: search_k >= k when the index has at least k slots");
    }
    if live == total && total >= k {
        assert!(r == k, "C06: no oversampling without tombstones");
    }
}

#[kani::proof]
#[kani::unwind(2)]
fn c06_o1_compute_search_k() {
    search_k_body(false);
}

#[kani::proof]
#[kani::unwind(2)]
fn c06_o1_compute_search_k__witness() {
    search_k_body(true);
}

// ---- C03 O3.1 / C15 O15.4: the pre-log validation of HnswBackend::insert is at least as strict
// as the index's own acceptance test.  The harness performs exactly the validating calls that
// `insert` makes before `WalWriter::append` (this list is pinned by the mirflow obligation
// O3.1/pinned: each call below must precede the append in `insert`, and `insert` must make no
// validating call the harness omits), then the real `HnswVectorIndex::add_vector` on an index with
// a no-op backend that is not full.  preflight Ok  ==>  add_vector Ok.
fn preflight_body<const DIM: usize>(distance: DistanceMetric, witness: bool) {
    let a: [f32; DIM] = kani::any();
    let mut v: Vec<f32> = Vec::with_capacity(DIM);
    let mut i = 0;
    while i < DIM {
        v.push(a[i]);
        i += 1;
    }
    let disable: bool = kani::any();
    let mut index = crate::hnsw_index::verif_proofs::index_with_noop_backend(DIM, 8, 0, distance, disable);
    // --- the pre-flight of HnswBackend::insert (dimension test is trivially satisfied here) ---
    let pre = preflight_insert(&index, distance, &mut v);
    if witness {
        kani::cover!(pre.is_ok(), "pre-flight accepts some vector");
        kani::cover!(pre.is_err(), "pre-flight rejects some vector");
        std::mem::forget(pre);
        std::mem::forget(index);
        return;
    }
    if pre.is_ok() {
        let r = index.add_vector(0, &v);
        assert!(r.is_ok(), "C03: a vector accepted by the pre-log validation is accepted by the index (no rejection after the WAL append)");
        std::mem::forget(r);
    }
    std::mem::forget(pre);
    std::mem::forget(index);
}

include!(concat!(env!("VERIF_HARNESS_DIR"), "/hnsw_backend_preflight.in.rs"));

macro_rules! preflight_harness {
    ($name:ident, $wname:ident, $dim:expr, $metric:expr) => {
        #[kani::proof]
        #[kani::unwind(6)]
        #[kani::stub(std::fmt::format, crate::verif_support::fmt_format_stub)]
        #[kani::stub(std::backtrace::Backtrace::capture, crate::verif_support::backtrace_capture_stub)]
        #[kani::stub(crate::simd::detect_best_f32_kernels, crate::simd::verif_proofs::scalar_table)]
        fn $name() {
            preflight_body::<$dim>($metric, false);
        }
        #[kani::proof]
        #[kani::unwind(6)]
        #[kani::stub(std::fmt::format, crate::verif_support::fmt_format_stub)]
        #[kani::stub(std::backtrace::Backtrace::capture, crate::verif_support::backtrace_capture_stub)]
        #[kani::stub(crate::simd::detect_best_f32_kernels, crate::simd::verif_proofs::scalar_table)]
        fn $wname() {
            preflight_body::<$dim>($metric, true);
        }
    };
}

preflight_harness!(c03_o1_preflight_euclidean_d1, c03_o1_preflight_euclidean_d1__witness, 1, DistanceMetric::Euclidean);
preflight_harness!(c03_o1_preflight_euclidean_d2, c03_o1_preflight_euclidean_d2__witness, 2, DistanceMetric::Euclidean);
preflight_harness!(c03_o1_preflight_cosine_d1, c03_o1_preflight_cosine_d1__witness, 1, DistanceMetric::Cosine);
preflight_harness!(c03_o1_preflight_cosine_d2, c03_o1_preflight_cosine_d2__witness, 2, DistanceMetric::Cosine);
preflight_harness!(c03_o1_preflight_inner_product_d2, c03_o1_preflight_inner_product_d2__witness, 2, DistanceMetric::InnerProduct);
preflight_harness!(c03_o1_preflight_inner_product_d1, c03_o1_preflight_inner_product_d1__witness, 1, DistanceMetric::InnerProduct);
preflight_harness!(c03_o1_preflight_euclidean_d4, c03_o1_preflight_euclidean_d4__witness, 4, DistanceMetric::Euclidean);
preflight_harness!(c03_o1_preflight_cosine_d3, c03_o1_preflight_cosine_d3__witness, 3, DistanceMetric::Cosine);

// ---- C02 O2.5 (also C01: restart succeeds): a vector that passes the pre-log validation of HnswBackend::insert —
// and is therefore written to the WAL and acknowledged — is accepted again, bit for bit, by the normalisation that
// recovery applies to every recovered embedding (`normalize_in_place_if_needed(..)?` in
// recover_with_hnsw_params_and_mode).  If the second pass fails the restart fails; if it changes a bit the restart
// is not lossless.
//   MODE 0: normalisation check enabled (default configuration): full statement.
//   MODE 1: check disabled: the one way a logged vector can leave the accepted band without the index noticing is a
//           squared norm that overflows (every lane is scaled by 1/sqrt(inf) = 0): such an input must be refused.
//           (The full statement with the check disabled needs a proof that sqrt/multiply keep |v|^2 within 2% of 1
//           for all inputs: no verdict in 15 min for dimension 2; attempted for dimension 1 in MODE 2, thorough tier.)
//   MODE 2: check disabled, full statement.
fn replay_normalize_body<const DIM: usize>(distance: DistanceMetric, mode: u8, witness: bool) {
    let a: [f32; DIM] = kani::any();
    let mut v: Vec<f32> = Vec::with_capacity(DIM);
    let mut i = 0;
    while i < DIM {
        v.push(a[i]);
        i += 1;
    }
    let disable = mode != 0;
    let norm_sq_in = crate::simd::sum_squares_f32(&v);
    let index = crate::hnsw_index::verif_proofs::index_with_noop_backend(DIM, 8, 0, distance, disable);
    let pre = preflight_insert(&index, distance, &mut v);
    if witness {
        kani::cover!(pre.is_ok(), "some vector is accepted");
        kani::cover!(pre.is_err(), "some vector is refused");
        std::mem::forget(pre);
        std::mem::forget(index);
        return;
    }
    if pre.is_ok() {
        if mode == 1 {
            if !matches!(distance, DistanceMetric::Euclidean) {
                assert!(norm_sq_in.is_finite(), "C02/C01: a vector whose squared norm overflows is refused before the WAL append (it would be logged as all zeros, which the replay-time normalisation refuses: restart does not fail on it)");
            }
        } else {
            let mut logged = [0u32; DIM];
            let mut i = 0;
            while i < DIM {
                logged[i] = v[i].to_bits();
                i += 1;
            }
            let again = normalize_in_place_if_needed(distance, &mut v);
            assert!(again.is_ok(), "C02/C01: a vector that was logged and acknowledged is accepted by the replay-time normalisation (restart does not fail on it)");
            let mut i = 0;
            while i < DIM {
                assert!(v[i].to_bits() == logged[i], "C02: replay-time normalisation leaves a logged vector bit-identical");
                i += 1;
            }
            std::mem::forget(again);
        }
    }
    std::mem::forget(pre);
    std::mem::forget(index);
}

macro_rules! replay_normalize_harness {
    ($name:ident, $wname:ident, $dim:expr, $metric:expr, $mode:expr) => {
        #[kani::proof]
        #[kani::unwind(6)]
        #[kani::stub(std::fmt::format, crate::verif_support::fmt_format_stub)]
        #[kani::stub(std::backtrace::Backtrace::capture, crate::verif_support::backtrace_capture_stub)]
        #[kani::stub(crate::simd::detect_best_f32_kernels, crate::simd::verif_proofs::scalar_table)]
        fn $name() {
            replay_normalize_body::<$dim>($metric, $mode, false);
        }
        #[kani::proof]
        #[kani::unwind(6)]
        #[kani::stub(std::fmt::format, crate::verif_support::fmt_format_stub)]
        #[kani::stub(std::backtrace::Backtrace::capture, crate::verif_support::backtrace_capture_stub)]
        #[kani::stub(crate::simd::detect_best_f32_kernels, crate::simd::verif_proofs::scalar_table)]
        fn $wname() {
            replay_normalize_body::<$dim>($metric, $mode, true);
        }
    };
}

// (MODE 0 at dimension 2 for Cosine/InnerProduct did not finish in 20 min: the squared norm of the normalised vector is
// computed twice — by validate_vector and by the second normalisation — and CBMC has to prove the two multiplier
// circuits equal; dimension 1 is used instead.)
replay_normalize_harness!(c02_o5_replay_normalize_checked_cosine_d1, c02_o5_replay_normalize_checked_cosine_d1__witness, 1, DistanceMetric::Cosine, 0);
replay_normalize_harness!(c02_o5_replay_normalize_checked_inner_product_d1, c02_o5_replay_normalize_checked_inner_product_d1__witness, 1, DistanceMetric::InnerProduct, 0);
replay_normalize_harness!(c02_o5_replay_normalize_checked_euclidean_d2, c02_o5_replay_normalize_checked_euclidean_d2__witness, 2, DistanceMetric::Euclidean, 0);
replay_normalize_harness!(c02_o5_replay_normalize_overflow_cosine_d2, c02_o5_replay_normalize_overflow_cosine_d2__witness, 2, DistanceMetric::Cosine, 1);
replay_normalize_harness!(c02_o5_replay_normalize_overflow_inner_product_d2, c02_o5_replay_normalize_overflow_inner_product_d2__witness, 2, DistanceMetric::InnerProduct, 1);
replay_normalize_harness!(c02_o5_replay_normalize_unchecked_cosine_d1, c02_o5_replay_normalize_unchecked_cosine_d1__witness, 1, DistanceMetric::Cosine, 2);
