//! Kernels in hnsw_backend.rs: OrderedF64 (C11), compute_search_k (C06).
#![allow(non_snake_case)]
use super::*;

// ---- C11 O11.1: OrderedF64::from_f64 is an order embedding of non-NaN f64 with +-0 identified
fn ordered_body(witness: bool) {
    let a: f64 = kani::any();
    let b: f64 = kani::any();
    kani::assume(a == a && b == b); // non-NaN (NaN bounds/values are handled before the index, O11.5)
    let ka = OrderedF64::from_f64(a);
    let kb = OrderedF64::from_f64(b);
    if witness {
        kani::cover!(a < b && a < 0.0 && b > 0.0, "mixed signs reachable");
        kani::cover!(a == b && a.to_bits() != b.to_bits(), "+0/-0 pair reachable");
        return;
    }
    assert!((a < b) == (ka < kb), "C11: a<b <=> key(a)<key(b)");
    assert!((a == b) == (ka == kb), "C11: a==b <=> key(a)==key(b)");
    assert!((a > b) == (ka > kb), "C11: a>b <=> key(a)>key(b)");
    assert!((a <= b) == (ka <= kb) && (a >= b) == (ka >= kb), "C11: <=, >= agree");
}

#[kani::proof]
#[kani::unwind(2)]
fn c11_o1_ordered_f64_embedding() {
    ordered_body(false);
}

#[kani::proof]
#[kani::unwind(2)]
fn c11_o1_ordered_f64_embedding__witness() {
    ordered_body(true);
}

// ---- C06 O6.1: compute_search_k
fn search_k_body(witness: bool) {
    let k: usize = kani::any();
    let live: usize = kani::any();
    let total: usize = kani::any();
    kani::assume(k >= 1 && k <= 10_000);
    kani::assume(live <= total);
    kani::assume(total <= (1usize << 40));
    let r = compute_search_k(k, live, total);
    if witness {
        kani::cover!(r > k && live > 0 && live < total, "oversampling path reachable");
        kani::cover!(r == k, "no oversampling reachable");
        return;
    }
    assert!(r <= 10_000, "C06: search_k <= 10000");
    let floor = if k < total { k } else { total };
    assert!(r >= floor || r >= k, "C06: search_k >= min(k,total)");
    assert!(r >= 1, "C06: search_k >= 1");
    // never fewer candidates than requested when enough slots exist, and oversampling only when
    // tombstones exist
    if total >= k {
        assert!(r >= k, "C06: search_k >= k when the index has at least k slots");
    }
    if live == total && total >= k {
        assert!(r == k, "C06: no oversampling without tombstones");
    }
}

#[kani::proof]
#[kani::unwind(2)]
fn c06_o1_compute_search_k() {
    search_k_body(false);
}

#[kani::proof]
#[kani::unwind(2)]
fn c06_o1_compute_search_k__witness() {
    search_k_body(true);
}
