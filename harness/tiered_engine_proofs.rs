//! C06 O6.5 — TieredEngine::merge_knn_results (hot + cold candidate lists -> final top-k).  Kani harness over the real
//! function; its local `HashMap<u64, f32>` is the finite-map model crate::verif_map under cfg(kani).
//! For up to 2 hot and 2 cold candidates with symbolic ids (0..3) and symbolic non-NaN distances, and symbolic k (0..4):
//!   * at most k results, no id twice;
//!   * every result is a candidate, with the hot distance if the id is a hot candidate, else the (first) cold distance;
//!   * results are in non-decreasing distance order;
//!   * nothing better is dropped: every distinct candidate that is missing is no closer than the worst result kept
//!     (when the list is full) — and if fewer than k results come back, every distinct candidate is present.
#![allow(non_snake_case)]
use super::*;

fn any_dist() -> f32 {
    let d: f32 = kani::any();
    kani::assume(d == d && d >= 0.0 && d <= 4.0);
    d
}

fn merge_body(nh: usize, nc: usize, witness: bool) {
    let k: usize = kani::any();
    kani::assume(k <= 4);
    let hid: [u64; 2] = [kani::any(), kani::any()];
    let cid: [u64; 2] = [kani::any(), kani::any()];
    kani::assume(hid[0] < 4 && hid[1] < 4 && cid[0] < 4 && cid[1] < 4);
    kani::assume(nh < 2 || hid[0] != hid[1]); // the hot tier reports a document once
    let hd: [f32; 2] = [any_dist(), any_dist()];
    let cd: [f32; 2] = [any_dist(), any_dist()];
    let mut hot: Vec<(u64, f32)> = Vec::with_capacity(2);
    let mut cold: Vec<SearchResult> = Vec::with_capacity(2);
    let mut i = 0;
    while i < nh {
        hot.push((hid[i], hd[i]));
        i += 1;
    }
    let mut i = 0;
    while i < nc {
        cold.push(SearchResult { doc_id: cid[i], distance: cd[i] });
        i += 1;
    }
    let out = TieredEngine::merge_knn_results(hot, cold, k);
    let n = out.len();
    if witness {
        kani::cover!(n == nh + nc, "all candidates distinct and kept");
        kani::cover!(n == 1 && nh + nc >= 2, "truncation to k = 1");
        std::mem::forget(out);
        return;
    }
    // expected distance of an id: hot first, then the first cold occurrence; u32::MAX bits = not a candidate
    let expect = |id: u64| -> Option<f32> {
        if nh > 0 && hid[0] == id {
            return Some(hd[0]);
        }
        if nh > 1 && hid[1] == id {
            return Some(hd[1]);
        }
        if nc > 0 && cid[0] == id {
            return Some(cd[0]);
        }
        if nc > 1 && cid[1] == id {
            return Some(cd[1]);
        }
        None
    };
    assert!(n <= k, "C06: at most k results");
    assert!(n <= 4);
    let mut i = 0;
    while i < n {
        let r = &out[i];
        let e = expect(r.doc_id);
        assert!(e.is_some(), "C06: every result is one of the candidates");
        assert!(e == Some(r.distance), "C06: a result carries the hot-tier distance if the document is hot, else the cold-tier distance");
        let mut j = i + 1;
        while j < n {
            assert!(out[j].doc_id != r.doc_id, "C06: no document appears twice");
            j += 1;
        }
        if i + 1 < n {
            assert!(r.distance <= out[i + 1].distance, "C06: results are ordered by distance, best first");
        }
        i += 1;
    }
    // completeness: a distinct candidate that is missing is no better than the worst result kept; none is missing if n < k
    let mut id = 0u64;
    while id < 4 {
        if let Some(d) = expect(id) {
            let mut present = false;
            let mut i = 0;
            while i < n {
                if out[i].doc_id == id {
                    present = true;
                }
                i += 1;
            }
            if !present {
                assert!(n == k, "C06: fewer than k results only when there are no more distinct candidates");
                if n > 0 {
                    assert!(d >= out[n - 1].distance, "C06: a dropped candidate is no closer than the worst result kept");
                }
            }
        }
        id += 1;
    }
    std::mem::forget(out);
}

// Candidate counts are concrete per row (symbolic counts: no verdict, > 9 GB after 16 min); ids, distances and k are symbolic.
macro_rules! merge_row {
    ($name:ident, $wname:ident, $nh:expr, $nc:expr) => {
        #[kani::proof]
        #[kani::unwind(7)]
        fn $name() {
            merge_body($nh, $nc, false);
        }
        #[kani::proof]
        #[kani::unwind(7)]
        fn $wname() {
            merge_body($nh, $nc, true);
        }
    };
}

merge_row!(c06_o5_merge_h1_c1, c06_o5_merge_h1_c1__witness, 1, 1);
merge_row!(c06_o5_merge_h1_c2, c06_o5_merge_h1_c2__witness, 1, 2);
merge_row!(c06_o5_merge_h2_c1, c06_o5_merge_h2_c1__witness, 2, 1);
merge_row!(c06_o5_merge_h2_c2, c06_o5_merge_h2_c2__witness, 2, 2);
