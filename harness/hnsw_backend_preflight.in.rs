// The validating calls HnswBackend::insert makes before WalWriter::append, in order
// (pinned against the MIR of `insert` by mirflow obligation O3.1/pinned).
fn preflight_insert(index: &crate::hnsw_index::HnswVectorIndex, distance: DistanceMetric, v: &mut Vec<f32>) -> anyhow::Result<()> {
    normalize_in_place_if_needed(distance, v)?;
    index.validate_vector(v)?;
    Ok(())
}
