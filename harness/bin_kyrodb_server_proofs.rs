//! C10 — tenant id mapping (server binary).  Child module of the bin root (overlay, cfg(kani)).
#![allow(non_snake_case)]
use super::*;

fn mapper_body(witness: bool) {
    let t1: u32 = kani::any();
    let t2: u32 = kani::any();
    let l1: u64 = kani::any();
    let l2: u64 = kani::any();
    let g1 = TenantIdMapper::to_global_doc_id(t1, l1);
    let g2 = TenantIdMapper::to_global_doc_id(t2, l2);
    if witness {
        kani::cover!(g1.is_ok() && g2.is_ok() && t1 != t2 && l1 == l2, "two tenants, same local id");
        kani::cover!(g1.is_err(), "out-of-range local id reachable");
        std::mem::forget(g1);
        std::mem::forget(g2);
        return;
    }
    assert!(g1.is_ok() == (l1 <= u32::MAX as u64), "C10: Ok iff local id fits 32 bits");
    if let (Ok(a), Ok(b)) = (&g1, &g2) {
        let (a, b) = (*a, *b);
        assert!((a == b) == (t1 == t2 && l1 == l2), "C10: global ids collide iff same tenant and same local id");
        assert!(TenantIdMapper::is_tenant_doc_id(t1, a), "C10: own id recognised");
        assert!(TenantIdMapper::to_local_doc_id(a) == l1, "C10: round trip");
        assert!(TenantIdMapper::is_tenant_doc_id(t2, a) == (t1 == t2), "C10: foreign id never attributed to the caller");
    }
    std::mem::forget(g1);
    std::mem::forget(g2);
}

#[kani::proof]
#[kani::unwind(2)]
#[kani::stub(std::fmt::format, kyrodb_engine::verif_support::fmt_format_stub)]
fn c10_o1_tenant_id_mapper() {
    mapper_body(false);
}

#[kani::proof]
#[kani::unwind(2)]
#[kani::stub(std::fmt::format, kyrodb_engine::verif_support::fmt_format_stub)]
fn c10_o1_tenant_id_mapper__witness() {
    mapper_body(true);
}

/// Any global id (arbitrary 64 bits, e.g. returned by the engine for another tenant's document)
/// is attributed to tenant t iff its high half is t; the local id is the low half.
fn foreign_body(witness: bool) {
    let t: u32 = kani::any();
    let g: u64 = kani::any();
    let mine = TenantIdMapper::is_tenant_doc_id(t, g);
    if witness {
        kani::cover!(mine, "own");
        kani::cover!(!mine, "foreign");
        return;
    }
    assert!(mine == ((g >> 32) == t as u64), "C10: ownership test is the high 32 bits");
    if mine {
        let l = TenantIdMapper::to_local_doc_id(g);
        assert!(l <= u32::MAX as u64);
        let back = TenantIdMapper::to_global_doc_id(t, l);
        assert!(matches!(back, Ok(x) if x == g), "C10: local->global inverse");
        std::mem::forget(back);
    }
}

#[kani::proof]
#[kani::unwind(2)]
#[kani::stub(std::fmt::format, kyrodb_engine::verif_support::fmt_format_stub)]
fn c10_o1_foreign_global_id() {
    foreign_body(false);
}

#[kani::proof]
#[kani::unwind(2)]
#[kani::stub(std::fmt::format, kyrodb_engine::verif_support::fmt_format_stub)]
fn c10_o1_foreign_global_id__witness() {
    foreign_body(true);
}
