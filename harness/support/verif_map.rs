//! Array-backed finite map standing in for `std::collections::HashMap` in Kani harnesses over `lru_index.rs`
//! (hashbrown's SipHash + SIMD group probing is out of CBMC's reach: a 4-operation history on the real HashMap did
//! not finish in 20 min).  Compiled only under cfg(kani) in the overlay; `lru_index.rs` imports `HashMap` from here
//! instead of `std::collections` under cfg(kani).  (The `entry` API was added for a VectorCache history harness that
//! did not fit in memory — 3 operations at capacity 2 needed > 13 GB because of the heap-backed `CachedVector` — and by a merge_knn_results harness (std sort_by + collect made even the 1+1-candidate row exceed 9 GB: removed).)
//!
//! Contract (part of every claim that uses it): a finite map with at most CAP entries — `insert` overwrites or adds,
//! `remove` deletes, `get`/`get_mut`/`contains_key` look up by key equality, `len` counts entries.  Iteration order,
//! hashing and capacity growth are not modelled (lru_index.rs uses none of them).
#![allow(dead_code)]

pub const CAP: usize = 4;

#[derive(Debug, Clone)]
pub struct HashMap<K, V> {
    slots: [Option<(K, V)>; CAP],
}

pub enum Entry<'a, K, V> {
    Occupied(OccupiedEntry<'a, K, V>),
    Vacant(VacantEntry<'a, K, V>),
}

pub struct OccupiedEntry<'a, K, V> {
    map: &'a mut HashMap<K, V>,
    slot: usize,
}

pub struct VacantEntry<'a, K, V> {
    map: &'a mut HashMap<K, V>,
    key: K,
}

impl<'a, K: Eq + Copy, V> OccupiedEntry<'a, K, V> {
    /// Replaces the value, returning the old one (std semantics).
    pub fn insert(&mut self, v: V) -> V {
        let k = match &self.map.slots[self.slot] {
            Some((k, _)) => *k,
            None => panic!("verif_map: occupied entry without a slot"),
        };
        match std::mem::replace(&mut self.map.slots[self.slot], Some((k, v))) {
            Some((_, old)) => old,
            None => panic!("verif_map: occupied entry without a slot"),
        }
    }
    pub fn get(&self) -> &V {
        match &self.map.slots[self.slot] {
            Some((_, v)) => v,
            None => panic!("verif_map: occupied entry without a slot"),
        }
    }
}

impl<'a, K: Eq + Copy, V> Entry<'a, K, V> {
    /// std semantics: the existing value if the key is present, otherwise `v` is inserted.
    pub fn or_insert(self, v: V) -> &'a mut V {
        match self {
            Entry::Occupied(o) => match &mut o.map.slots[o.slot] {
                Some((_, x)) => x,
                None => panic!("verif_map: occupied entry without a slot"),
            },
            Entry::Vacant(va) => {
                let k = va.key;
                let m = va.map;
                let _ = m.insert(k, v);
                match m.get_mut(&k) {
                    Some(x) => x,
                    None => panic!("verif_map: value just inserted is missing"),
                }
            }
        }
    }
}

/// By-value iteration in slot order (std's order is unspecified; callers must not depend on it).
pub struct IntoIter<K, V> {
    slots: [Option<(K, V)>; CAP],
    i: usize,
}

impl<K, V> Iterator for IntoIter<K, V> {
    type Item = (K, V);
    fn next(&mut self) -> Option<(K, V)> {
        while self.i < CAP {
            let j = self.i;
            self.i += 1;
            if let Some(kv) = self.slots[j].take() {
                return Some(kv);
            }
        }
        None
    }
}

impl<K, V> IntoIterator for HashMap<K, V> {
    type Item = (K, V);
    type IntoIter = IntoIter<K, V>;
    fn into_iter(self) -> IntoIter<K, V> {
        IntoIter { slots: self.slots, i: 0 }
    }
}

impl<'a, K: Eq + Copy, V> VacantEntry<'a, K, V> {
    pub fn insert(self, v: V) {
        let _ = self.map.insert(self.key, v);
    }
}

impl<K: Eq + Copy, V> HashMap<K, V> {
    pub fn new() -> Self {
        HashMap { slots: [None, None, None, None] }
    }
    pub fn is_empty(&self) -> bool {
        self.len() == 0
    }
    pub fn entry(&mut self, k: K) -> Entry<'_, K, V> {
        let i = self.find(&k);
        if i < CAP {
            Entry::Occupied(OccupiedEntry { map: self, slot: i })
        } else {
            Entry::Vacant(VacantEntry { map: self, key: k })
        }
    }
    pub fn with_capacity(_n: usize) -> Self {
        Self::new()
    }
    fn find(&self, k: &K) -> usize {
        let mut i = 0;
        while i < CAP {
            if let Some((kk, _)) = &self.slots[i] {
                if *kk == *k {
                    return i;
                }
            }
            i += 1;
        }
        CAP
    }
    pub fn len(&self) -> usize {
        let mut n = 0;
        let mut i = 0;
        while i < CAP {
            if self.slots[i].is_some() {
                n += 1;
            }
            i += 1;
        }
        n
    }
    pub fn contains_key(&self, k: &K) -> bool {
        self.find(k) < CAP
    }
    pub fn clear(&mut self) {
        self.slots = [None, None, None, None];
    }
    pub fn get(&self, k: &K) -> Option<&V> {
        let i = self.find(k);
        if i == CAP {
            return None;
        }
        match &self.slots[i] {
            Some((_, v)) => Some(v),
            None => None,
        }
    }
    pub fn get_mut(&mut self, k: &K) -> Option<&mut V> {
        let i = self.find(k);
        if i == CAP {
            return None;
        }
        match &mut self.slots[i] {
            Some((_, v)) => Some(v),
            None => None,
        }
    }
    pub fn insert(&mut self, k: K, v: V) -> Option<V> {
        let i = self.find(&k);
        if i < CAP {
            return match std::mem::replace(&mut self.slots[i], Some((k, v))) {
                Some((_, o)) => Some(o),
                None => None,
            };
        }
        let mut j = 0;
        while j < CAP {
            if self.slots[j].is_none() {
                self.slots[j] = Some((k, v));
                return None;
            }
            j += 1;
        }
        panic!("verif_map: more than CAP entries (harness bound exceeded)");
    }
    pub fn remove(&mut self, k: &K) -> Option<V> {
        let i = self.find(k);
        if i == CAP {
            return None;
        }
        match std::mem::replace(&mut self.slots[i], None) {
            Some((_, o)) => Some(o),
            None => None,
        }
    }
}
