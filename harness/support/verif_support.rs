//! Shared stubs and helpers for Kani harnesses (engine K).  Compiled only under `cfg(kani)`
//! as `crate::verif_support` inside the overlay copy of the crate; never part of /repo.
#![allow(dead_code)]

use std::time::{Duration, Instant};

/// `std::fmt::format` stub: error/log message text is not the subject of any property.
pub fn fmt_format_stub(_args: std::fmt::Arguments<'_>) -> String {
    String::new()
}

/// `Backtrace::capture` stub (anyhow captures one per error).
pub fn backtrace_capture_stub() -> std::backtrace::Backtrace {
    std::backtrace::Backtrace::disabled()
}

/// `RandomState::new` stub: fixed keys (hash seeds are not observable behaviour).
pub fn random_state_new_stub() -> std::hash::RandomState {
    // RandomState is two u64 keys.
    unsafe { std::mem::transmute::<[u64; 2], std::hash::RandomState>([0x9E37_79B9_7F4A_7C15, 0x0123_4567_89AB_CDEF]) }
}

// ---------------------------------------------------------------------------------------------
// Symbolic monotonic clock.  Time is kept as (secs, nanos) so that no 64-bit division is
// needed to build a `Duration` (a divide-by-constant stalls the bit-blaster).
// ---------------------------------------------------------------------------------------------
static mut CLOCK_S: u64 = 0;
static mut CLOCK_N: u32 = 0;
static mut CLOCK_MAX_STEP_S: u64 = 0; // each now() advances by any (ds, dn) with ds <= max
static mut CLOCK_FREE: bool = false;
static mut CLOCK_CALLS: u32 = 0;

pub fn clock_base() -> Instant {
    // Instant on linux is a Timespec {tv_sec: i64, tv_nsec: u32 (niche < 1e9)}; all-zero is valid.
    let base: Instant = unsafe { std::mem::zeroed() };
    base + Duration::new(1_000, 0)
}

/// The stubbed clock returns exactly (s, n) until changed.
pub fn clock_set(s: u64, n: u32) {
    unsafe {
        CLOCK_S = s;
        CLOCK_N = n;
        CLOCK_FREE = false;
    }
}

/// Every `now()` advances the clock by an arbitrary amount of at most `max_step_s` seconds.
pub fn clock_free(max_step_s: u64) {
    unsafe {
        CLOCK_FREE = true;
        CLOCK_MAX_STEP_S = max_step_s;
    }
}

pub fn clock_get() -> (u64, u32) {
    unsafe { (CLOCK_S, CLOCK_N) }
}

pub fn clock_calls() -> u32 {
    unsafe { CLOCK_CALLS }
}

/// Advance by (ds, dn) with carry, no division.
pub fn clock_advance(ds: u64, dn: u32) {
    unsafe {
        let mut n = CLOCK_N + dn;
        let mut s = CLOCK_S + ds;
        if n >= 1_000_000_000 {
            n -= 1_000_000_000;
            s += 1;
        }
        CLOCK_S = s;
        CLOCK_N = n;
    }
}

/// `Instant::now` stub: arbitrary non-decreasing instant (contract of a monotonic clock).
pub fn instant_now_stub() -> Instant {
    unsafe {
        if CLOCK_FREE {
            let ds: u64 = kani::any();
            let dn: u32 = kani::any();
            kani::assume(ds <= CLOCK_MAX_STEP_S && dn < 1_000_000_000);
            clock_advance(ds, dn);
        }
        CLOCK_CALLS += 1;
        instant_at(CLOCK_S, CLOCK_N)
    }
}

pub fn instant_at(s: u64, n: u32) -> Instant {
    clock_base() + Duration::new(s, n)
}

/// Seconds as f64, the way `Duration::as_secs_f64` is documented (secs + nanos/1e9).
pub fn secs_f64(s: u64, n: u32) -> f64 {
    (s as f64) + (n as f64) / 1e9
}


/// `f32::powi` model: exact repeated multiplication for the small non-negative exponents the crate
/// uses (powi(x, 2) is x*x in LLVM as well).  Kani's built-in model of the powi intrinsic is an
/// over-approximation (arbitrary result), which produces spurious counterexamples.
pub fn powi_f32_model(x: f32, n: i32) -> f32 {
    let mut r = 1.0f32;
    let mut i = 0;
    while i < n && i < 4 {
        r *= x;
        i += 1;
    }
    r
}
