//! In-memory file-system model for Kani harnesses on persistence.rs (DESIGN 1.1 "File-system model").
//! Compiled only under cfg(kani) in the overlay; `persistence.rs` imports `File`/`OpenOptions` from
//! here instead of `std::fs` under cfg(kani).
//!
//! Contract (part of every claim that uses it): one flat byte array per file; writes land at the
//! append position; `sync_all`/`sync_data` make the current length durable; `set_len` truncates;
//! nothing else is durable.  Faults are symbolic: the k-th write may stop after `short` bytes and
//! fail, the k-th sync may fail, `set_len`/`seek` may fail.
//! Modelling rules (probes): no niche-carrying fields (usize flags only), byte moves by
//! `copy_from_slice`, simple (non-boxed) io::Error values.
#![allow(dead_code)]

use std::io::{self, ErrorKind, Read, Seek, SeekFrom, Write};
use std::path::Path;

pub const CAP: usize = 128;
pub const NFILES: usize = 2;

#[derive(Clone, Copy)]
pub struct FileState {
    pub exists: usize,
    pub len: usize,
    pub durable_len: usize,
    pub data: [u8; CAP],
}

pub struct Faults {
    pub write_fail_at: usize, // index of the write() call that fails (usize::MAX = never)
    pub write_short: usize,   // bytes written by the failing call before it fails
    pub sync_fail_at: usize,  // index of the sync_* call that fails
    pub set_len_fails: usize, // 1 = the next set_len fails
    pub seek_fails: usize,
}

pub struct Counters {
    pub writes: usize,
    pub syncs: usize,
    pub set_lens: usize,
    pub last_sync_was_all: usize,
}

pub static mut FS: [FileState; NFILES] = [FileState { exists: 0, len: 0, durable_len: 0, data: [0; CAP] }; NFILES];
pub static mut FAULTS: Faults = Faults { write_fail_at: usize::MAX, write_short: 0, sync_fail_at: usize::MAX, set_len_fails: 0, seek_fails: 0 };
pub static mut COUNTERS: Counters = Counters { writes: 0, syncs: 0, set_lens: 0, last_sync_was_all: 0 };

pub fn reset() {
    unsafe {
        let mut i = 0;
        while i < NFILES {
            FS[i].exists = 0;
            FS[i].len = 0;
            FS[i].durable_len = 0;
            i += 1;
        }
        FAULTS = Faults { write_fail_at: usize::MAX, write_short: 0, sync_fail_at: usize::MAX, set_len_fails: 0, seek_fails: 0 };
        COUNTERS = Counters { writes: 0, syncs: 0, set_lens: 0, last_sync_was_all: 0 };
    }
}

pub fn no_faults() {
    unsafe {
        FAULTS = Faults { write_fail_at: usize::MAX, write_short: 0, sync_fail_at: usize::MAX, set_len_fails: 0, seek_fails: 0 };
    }
}

pub fn state(id: usize) -> FileState {
    unsafe { FS[id] }
}

fn err() -> io::Error {
    io::Error::from(ErrorKind::Other)
}

/// All paths used by the harnesses map to file 0 except names ending in "b" (file 1).
fn id_of(path: &Path) -> usize {
    let b = path.as_os_str().as_encoded_bytes();
    if !b.is_empty() && b[b.len() - 1] == b'b' {
        1
    } else {
        0
    }
}

pub struct File {
    pub id: usize,
    pub pos: usize,
    pub append: usize,
}

pub struct OpenOptions {
    create: usize,
    read: usize,
    append: usize,
    write: usize,
    truncate: usize,
}

impl OpenOptions {
    pub fn new() -> Self {
        OpenOptions { create: 0, read: 0, append: 0, write: 0, truncate: 0 }
    }
    pub fn create(&mut self, v: bool) -> &mut Self {
        self.create = v as usize;
        self
    }
    pub fn read(&mut self, v: bool) -> &mut Self {
        self.read = v as usize;
        self
    }
    pub fn append(&mut self, v: bool) -> &mut Self {
        self.append = v as usize;
        self
    }
    pub fn write(&mut self, v: bool) -> &mut Self {
        self.write = v as usize;
        self
    }
    pub fn truncate(&mut self, v: bool) -> &mut Self {
        self.truncate = v as usize;
        self
    }
    pub fn open<P: AsRef<Path>>(&self, path: P) -> io::Result<File> {
        let id = id_of(path.as_ref());
        unsafe {
            if FS[id].exists == 0 {
                if self.create == 0 {
                    return Err(io::Error::from(ErrorKind::NotFound));
                }
                FS[id].exists = 1;
                FS[id].len = 0;
                FS[id].durable_len = 0;
            }
            if self.truncate == 1 {
                FS[id].len = 0;
            }
        }
        Ok(File { id, pos: 0, append: self.append })
    }
}

impl File {
    pub fn create<P: AsRef<Path>>(path: P) -> io::Result<File> {
        let id = id_of(path.as_ref());
        unsafe {
            FS[id].exists = 1;
            FS[id].len = 0;
            FS[id].durable_len = 0;
        }
        Ok(File { id, pos: 0, append: 0 })
    }
    pub fn open<P: AsRef<Path>>(path: P) -> io::Result<File> {
        let id = id_of(path.as_ref());
        unsafe {
            if FS[id].exists == 0 {
                return Err(io::Error::from(ErrorKind::NotFound));
            }
        }
        Ok(File { id, pos: 0, append: 0 })
    }
    fn sync(&self, all: usize) -> io::Result<()> {
        unsafe {
            let k = COUNTERS.syncs;
            COUNTERS.syncs = k + 1;
            if k == FAULTS.sync_fail_at {
                return Err(err());
            }
            FS[self.id].durable_len = FS[self.id].len;
            COUNTERS.last_sync_was_all = all;
        }
        Ok(())
    }
    pub fn sync_all(&self) -> io::Result<()> {
        self.sync(1)
    }
    pub fn sync_data(&self) -> io::Result<()> {
        self.sync(0)
    }
    pub fn set_len(&self, size: u64) -> io::Result<()> {
        unsafe {
            COUNTERS.set_lens += 1;
            if FAULTS.set_len_fails == 1 {
                FAULTS.set_len_fails = 0;
                return Err(err());
            }
            let n = size as usize;
            if n > CAP {
                return Err(err());
            }
            FS[self.id].len = n;
        }
        Ok(())
    }
    pub fn try_clone(&self) -> io::Result<File> {
        Ok(File { id: self.id, pos: self.pos, append: self.append })
    }
}

impl Write for File {
    fn write(&mut self, buf: &[u8]) -> io::Result<usize> {
        unsafe {
            let k = COUNTERS.writes;
            COUNTERS.writes = k + 1;
            let at = if self.append == 1 { FS[self.id].len } else { self.pos };
            let mut n = buf.len();
            let mut fail = 0;
            if k == FAULTS.write_fail_at {
                fail = 1;
                if FAULTS.write_short < n {
                    n = FAULTS.write_short;
                }
            }
            if at + n > CAP {
                return Err(err());
            }
            FS[self.id].data[at..at + n].copy_from_slice(&buf[..n]);
            if at + n > FS[self.id].len {
                FS[self.id].len = at + n;
            }
            self.pos = at + n;
            if fail == 1 {
                return Err(err());
            }
            Ok(n)
        }
    }
    /// Same result as the default `write_all` over `write` above (the model never returns `Interrupted` and never
    /// returns Ok(0) for a non-empty buffer), without decoding the bit-packed io::Error (`is_interrupted()`), which is
    /// very expensive for CBMC (measured: > 25 min vs minutes).
    fn write_all(&mut self, buf: &[u8]) -> io::Result<()> {
        match self.write(buf) {
            Ok(_) => Ok(()),
            Err(e) => Err(e),
        }
    }
    fn flush(&mut self) -> io::Result<()> {
        Ok(())
    }
}

impl Read for File {
    fn read(&mut self, buf: &mut [u8]) -> io::Result<usize> {
        unsafe {
            let len = FS[self.id].len;
            if self.pos >= len {
                return Ok(0);
            }
            let mut n = len - self.pos;
            if buf.len() < n {
                n = buf.len();
            }
            buf[..n].copy_from_slice(&FS[self.id].data[self.pos..self.pos + n]);
            self.pos += n;
            Ok(n)
        }
    }
}

impl Seek for File {
    fn seek(&mut self, pos: SeekFrom) -> io::Result<u64> {
        unsafe {
            if FAULTS.seek_fails == 1 {
                FAULTS.seek_fails = 0;
                return Err(err());
            }
        }
        match pos {
            SeekFrom::Start(o) => {
                self.pos = o as usize;
            }
            SeekFrom::End(_) | SeekFrom::Current(_) => {}
        }
        Ok(self.pos as u64)
    }
}

pub fn rename<P: AsRef<Path>, Q: AsRef<Path>>(from: P, to: Q) -> io::Result<()> {
    let a = id_of(from.as_ref());
    let b = id_of(to.as_ref());
    unsafe {
        if a != b {
            FS[b] = FS[a];
            FS[a].exists = 0;
        }
    }
    Ok(())
}

/// Model checksum standing in for crc32fast::hash (which selects its implementation through cpuid):
/// a position-weighted byte sum.  CRC strength is outside every claim that uses it; frame layout is not.
pub fn checksum_model(bytes: &[u8]) -> u32 {
    let mut acc: u32 = 0x9E37_79B9;
    let mut i = 0;
    while i < bytes.len() {
        acc = acc.rotate_left(5) ^ (bytes[i] as u32).wrapping_add(i as u32);
        i += 1;
    }
    acc
}
