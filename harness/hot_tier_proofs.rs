//! hot_tier.rs: TopKCandidate ranking order (C06 O6.3).
#![allow(non_snake_case)]
use super::*;
use std::cmp::Ordering as O;

fn rev(o: O) -> O {
    match o {
        O::Less => O::Greater,
        O::Greater => O::Less,
        O::Equal => O::Equal,
    }
}

#[kani::proof]
#[kani::unwind(2)]
fn c06_o3_topk_candidate_total_order() {
    let a = TopKCandidate { doc_id: kani::any(), distance: kani::any() };
    let b = TopKCandidate { doc_id: kani::any(), distance: kani::any() };
    let c = TopKCandidate { doc_id: kani::any(), distance: kani::any() };
    assert!(a.cmp(&a) == O::Equal, "C06: reflexive");
    assert!(a.cmp(&b) == rev(b.cmp(&a)), "C06: antisymmetric");
    if a.cmp(&b) != O::Greater && b.cmp(&c) != O::Greater {
        assert!(a.cmp(&c) != O::Greater, "C06: transitive");
    }
    if a.cmp(&b) == O::Equal {
        assert!(a.distance.to_bits() == b.distance.to_bits() && a.doc_id == b.doc_id, "C06: Equal only for identical items");
    }
    if a.distance < b.distance {
        assert!(a.cmp(&b) == O::Less, "C06: numeric < implies Less");
    }
    assert!(a.partial_cmp(&b) == Some(a.cmp(&b)));
}

#[kani::proof]
#[kani::unwind(2)]
fn c06_o3_topk_candidate_total_order__witness() {
    let a = TopKCandidate { doc_id: kani::any(), distance: kani::any() };
    let b = TopKCandidate { doc_id: kani::any(), distance: kani::any() };
    kani::cover!(a.cmp(&b) == O::Less && a.distance != a.distance, "NaN item ordered");
    kani::cover!(a.cmp(&b) == O::Greater && a.distance == b.distance, "tie broken by id");
}
