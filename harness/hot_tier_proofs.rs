//! hot_tier.rs: TopKCandidate ranking order (C06 O6.3).
#![allow(non_snake_case)]
use super::*;
use std::cmp::Ordering as O;

fn rev(o: O) -> O {
    match o {
        O::Less => O::Greater,
        O::Greater => O::Less,
        O::Equal => O::Equal,
    }
}

#[kani::proof]
#[kani::unwind(2)]
fn c06_o3_topk_candidate_total_order() {
    let a = TopKCandidate { doc_id: kani::any(), distance: kani::any() };
    let b = TopKCandidate { doc_id: kani::any(), distance: kani::any() };
    let c = TopKCandidate { doc_id: kani::any(), distance: kani::any() };
    assert!(a.cmp(&a) == O::Equal, "C06: reflexive");
    assert!(a.cmp(&b) == rev(b.cmp(&a)), "C06: antisymmetric");
    if a.cmp(&b) != O::Greater && b.cmp(&c) != O::Greater {
        assert!(a.cmp(&c) != O::Greater, "C06: transitive");
    }
    if a.cmp(&b) == O::Equal {
        assert!(a.distance.to_bits() == b.distance.to_bits() && a.doc_id == b.doc_id, "C06: Equal only for identical items");
    }
    if a.distance < b.distance {
        assert!(a.cmp(&b) == O::Less, "C06: numeric < implies Less");
    }
    assert!(a.partial_cmp(&b) == Some(a.cmp(&b)));
}

#[kani::proof]
#[kani::unwind(2)]
fn c06_o3_topk_candidate_total_order__witness() {
    let a = TopKCandidate { doc_id: kani::any(), distance: kani::any() };
    let b = TopKCandidate { doc_id: kani::any(), distance: kani::any() };
    kani::cover!(a.cmp(&b) == O::Less && a.distance != a.distance, "NaN item ordered");
    kani::cover!(a.cmp(&b) == O::Greater && a.distance == b.distance, "tie broken by id");
}

// ---- C06 O6.7: the distance the hot tier reports is the metric's definition (what the cold tier reports for the same
// pair), not merely something inside a plausible range.  For a stored unit vector b (cached norm 1) and a query a with
// cached norm 1 the similarity is r = <a,b>, and
//   cosine / inner product:   distance == 1 - r        whenever -1 <= r <= 1
//                              distance == 0 (r > 1),  2 (r < -1)      (the clamp only absorbs rounding excursions)
// Dimension 2; the query lanes are symbolic (all f32 bit patterns), the partner is a concrete unit vector per row
// (a fully symbolic pair with symbolic norms — two multiplier/divider circuits to be proved equal — timed out at 15 min).
fn hot_distance_body(ip: bool, b: [f32; 2], witness: bool) {
    let a: [f32; 2] = kani::any();
    let d = if ip { HotTier::dot_distance_with_cached_norm(&a, 1.0, &b, 1.0) } else { HotTier::cosine_distance_with_cached_norm(&a, 1.0, &b, 1.0) };
    let r = crate::simd::dot_f32(&a, &b); // / (1.0 * 1.0)
    if witness {
        kani::cover!(d.is_finite() && r < 0.0 && r > -1.0, "negative similarity inside the range");
        kani::cover!(d.is_finite() && r > 1.0, "excursion above 1");
        return;
    }
    if r >= -1.0 && r <= 1.0 {
        assert!(d == 1.0 - r, "C06: hot-tier distance equals 1 - <a,b> for every similarity in [-1, 1]");
        assert!(d >= 0.0 && d <= 2.0);
    } else if r > 1.0 {
        assert!(d == 0.0, "C06: similarity above 1 is reported as distance 0");
    } else if r < -1.0 {
        assert!(d == 2.0, "C06: similarity below -1 is reported as distance 2");
    }
}

macro_rules! hot_distance_harness {
    ($name:ident, $wname:ident, $ip:expr, $b:expr) => {
        #[kani::proof]
        #[kani::unwind(4)]
        #[kani::stub(crate::simd::detect_best_f32_kernels, crate::simd::verif_proofs::scalar_table)]
        fn $name() {
            hot_distance_body($ip, $b, false);
        }
        #[kani::proof]
        #[kani::unwind(4)]
        #[kani::stub(crate::simd::detect_best_f32_kernels, crate::simd::verif_proofs::scalar_table)]
        fn $wname() {
            hot_distance_body($ip, $b, true);
        }
    };
}

hot_distance_harness!(c06_o7_hot_distance_cosine, c06_o7_hot_distance_cosine__witness, false, [1.0, 0.0]);
hot_distance_harness!(c06_o7_hot_distance_inner_product, c06_o7_hot_distance_inner_product__witness, true, [1.0, 0.0]);
hot_distance_harness!(c06_o7_hot_distance_cosine_b2, c06_o7_hot_distance_cosine_b2__witness, false, [0.6, 0.8]);
hot_distance_harness!(c06_o7_hot_distance_inner_product_b2, c06_o7_hot_distance_inner_product_b2__witness, true, [0.6, 0.8]);
