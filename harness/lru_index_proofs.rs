//! C20 — the recency index shared by the L1 caches.  Kani harnesses over the real `LruIndex<u8>` (its HashMap replaced
//! by the finite-map model crate::verif_map under cfg(kani)): every history of STEPS operations (insert_new / touch /
//! remove / pop_lru, symbolic kind and symbolic key per step, keys from a universe of 4) is compared, after every step,
//! with a reference model (an array holding the keys oldest -> newest): same length, same order when walked from
//! `head` along `next` and from `tail` along `prev`, same return values.  Appended (under cfg(kani)) as a child module
//! of `lru_index.rs` in the overlay.
#![allow(non_snake_case)]
use super::*;

const MAXN: usize = 4;

struct Model {
    keys: [u8; MAXN],
    len: usize,
}

impl Model {
    fn pos(&self, k: u8) -> usize {
        let mut i = 0;
        while i < self.len {
            if self.keys[i] == k {
                return i;
            }
            i += 1;
        }
        MAXN
    }
    fn remove_at(&mut self, p: usize) {
        let mut i = p;
        while i + 1 < self.len {
            self.keys[i] = self.keys[i + 1];
            i += 1;
        }
        self.len -= 1;
    }
    fn push(&mut self, k: u8) {
        self.keys[self.len] = k;
        self.len += 1;
    }
}

fn check_same(l: &LruIndex<u8>, m: &Model) {
    assert!(l.len() == m.len, "C20: LruIndex::len() equals the number of tracked keys");
    let mut cur = l.head;
    let mut i = 0;
    while i < m.len {
        assert!(cur == Some(m.keys[i]), "C20: recency list (head -> tail) equals the model order");
        let node = l.nodes.get(&m.keys[i]);
        assert!(node.is_some(), "C20: every listed key has a node");
        cur = match node {
            Some(n) => n.next,
            None => None,
        };
        i += 1;
    }
    assert!(cur.is_none(), "C20: the list ends after len() keys");
    let mut cur = l.tail;
    let mut i = m.len;
    while i > 0 {
        i -= 1;
        assert!(cur == Some(m.keys[i]), "C20: recency list (tail -> head) equals the model order");
        cur = match l.nodes.get(&m.keys[i]) {
            Some(n) => n.prev,
            None => None,
        };
    }
    assert!(cur.is_none(), "C20: the backward walk ends after len() keys");
}

fn step(l: &mut LruIndex<u8>, m: &mut Model, kind: u8, key: u8) {
    match kind {
        0 => {
            let p = m.pos(key);
            if p < MAXN {
                m.remove_at(p);
            }
            m.push(key);
            l.insert_new(key);
        }
        1 => {
            let p = m.pos(key);
            let r = l.touch(key);
            assert!(r == (p < MAXN), "C20: touch reports whether the key is tracked");
            if p < MAXN {
                m.remove_at(p);
                m.push(key);
            }
        }
        2 => {
            let p = m.pos(key);
            let r = l.remove(key);
            assert!(r == (p < MAXN), "C20: remove reports whether the key was tracked");
            assert!(l.contains(key) == false, "C20: a removed key is no longer tracked");
            if p < MAXN {
                m.remove_at(p);
            }
        }
        _ => {
            let r = l.pop_lru();
            if m.len == 0 {
                assert!(r.is_none(), "C20: pop_lru on an empty index returns None");
            } else {
                assert!(r == Some(m.keys[0]), "C20: pop_lru returns the least recently used key");
                m.remove_at(0);
            }
        }
    }
}

fn history(steps: usize, witness: bool) {
    let mut l: LruIndex<u8> = LruIndex::with_capacity(4);
    let mut m = Model { keys: [0; MAXN], len: 0 };
    let mut i = 0;
    let mut pops = 0u32;
    while i < steps {
        let kind: u8 = kani::any();
        let key: u8 = kani::any();
        kani::assume(kind < 4 && key < MAXN as u8);
        if kind == 3 {
            pops += 1;
        }
        step(&mut l, &mut m, kind, key);
        if !witness {
            check_same(&l, &m);
        }
        i += 1;
    }
    if witness {
        kani::cover!(m.len == 2 && pops >= 1, "a history with an eviction that leaves two keys");
    }
}

macro_rules! lru_hist {
    ($name:ident, $wname:ident, $steps:expr) => {
        #[kani::proof]
        #[kani::unwind(8)]
        fn $name() {
            history($steps, false);
        }
        #[kani::proof]
        #[kani::unwind(8)]
        fn $wname() {
            history($steps, true);
        }
    };
}

lru_hist!(c20_lru_histories_4, c20_lru_histories_4__witness, 4);
lru_hist!(c20_lru_histories_5, c20_lru_histories_5__witness, 5);
lru_hist!(c20_lru_histories_6, c20_lru_histories_6__witness, 6);
lru_hist!(c20_lru_histories_7, c20_lru_histories_7__witness, 7);
