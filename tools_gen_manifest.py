#!/usr/bin/env python3
"""Regenerates MANIFEST.json from props/*.py metadata (keeps the manifest valid at all times)."""
import importlib
import json
import os
import sys

HERE = os.path.dirname(os.path.abspath(__file__))
sys.path.insert(0, HERE)

ALL = ["C%02d" % i for i in range(1, 21)]
NA_REASONS = {
    "C05": "linearizability quantifies over thread interleavings of the real engine; Kani does not model threads and the operations sit on heap containers and I/O that cannot be bit-blasted (DESIGN 3)",
    "C16": "statistical recall floor over thousands of float vectors; no bounded symbolic encoding exists (DESIGN 3)",
}
TECH = {
    "K": "Kani/CBMC bounded model checking of the real functions (symbolic inputs, SAT-decided)",
    "M": "MIR control-flow path obligations (PRECEDES/FOLLOWS/HELD/ONLY_VIA) decided by z3 reachability queries",
}


def main():
    checks = []
    na = []
    for pid in ALL:
        path = os.path.join(HERE, "props", pid + ".py")
        if not os.path.exists(path):
            na.append({"property_id": pid, "reason": NA_REASONS.get(pid, "check not built yet in this stage (solver-based plan in DESIGN.md section 2); not claimed")})
            continue
        spec = importlib.import_module("props." + pid)
        engines = getattr(spec, "ENGINES", "KM")
        tech = getattr(spec, "TECHNIQUE", None) or " + ".join(TECH[e] for e in engines if e in TECH)
        checks.append({
            "property_id": pid,
            "quick_cmd": "./check %s --tier quick" % pid,
            "thorough_cmd": "./check %s --tier thorough" % pid,
            "evidence_file": "evidence/%s.json" % pid,
            "replay_cmd_template": "./check %s --replay {path}" % pid,
            "engine": "+".join({"K": "kani-overlay", "M": "mirflow"}[e] for e in engines),
            "level_claimed": {
                "category": getattr(spec, "LEVEL", "other"),
                "text": getattr(spec, "EXPLANATION", ""),
                "design_ref": "DESIGN.md section 2, " + pid,
            },
            "level_note": "; ".join(getattr(spec, "TRUSTED_BASE", [])) + ". Not covered: " + "; ".join(getattr(spec, "NOT_COVERED", [])),
            "technique": tech,
        })
    m = {
        "version": 1,
        "setup_cmd": "./setup.sh",
        "hooks": {
            "guard": "kyrodb_verif",
            "enable": "none needed: harnesses are appended to a scratch overlay copy of the crate under cfg(kani); /repo carries no hooks",
            "baseline_off_cmd": "cd /repo && cargo test --workspace --no-fail-fast --offline",
            "source_commits": [],
            "add_only": True,
        },
        "engines": [
            {"name": "kani-overlay", "path": "vlib/kani.py", "serves_properties": [c["property_id"] for c in checks if "kani" in c["engine"]],
             "kind_free_text": "cargo kani 0.68 / CBMC 6.11 on an overlay copy of /repo's crate with harness modules from /verif/harness appended under cfg(kani)"},
            {"name": "mirflow", "path": "vlib/mirflow.py", "serves_properties": [c["property_id"] for c in checks if "mirflow" in c["engine"]],
             "kind_free_text": "nightly rustc -Zunpretty=mir dump of /repo's current tree -> CFG -> z3 path queries"},
        ],
        "checks": checks,
        "not_applicable": na,
        "notes": "Exit codes: 0 pass (KNOWN-FINDING lines allowed), 1 VIOLATION (reproduced, unlisted), 2 inconclusive (timeout/OOM/pattern mismatch).",
    }
    with open(os.path.join(HERE, "MANIFEST.json"), "w") as fh:
        json.dump(m, fh, indent=1)
    print("MANIFEST.json: %d checks, %d not_applicable" % (len(checks), len(na)))


if __name__ == "__main__":
    main()
