#!/bin/bash
# usage: tools_seed_sandbox.sh <patch.diff> <prop> [<prop> ...]
# Like tools_seed_test.sh but never touches /repo: the seeded change is applied to a scratch worktree under /tmp and
# the checks run with VERIF_REPO=<worktree> VERIF_SANDBOX=<name> (own build/scratch/evidence directories), so it can
# run while the registered checks run against /repo.  Dev tool only; nothing registered in MANIFEST.json uses it.
set -u
PATCH=$(readlink -f "$1"); shift
NAME=${SEED_SANDBOX:-seed}
WT=/tmp/seedwt-$NAME
git -C /repo worktree remove --force $WT 2>/dev/null
git -C /repo worktree add --detach $WT HEAD >/dev/null 2>&1 || { echo "worktree add failed"; exit 2; }
( cd $WT && { git apply "$PATCH" || git apply --3way "$PATCH"; } ) || { echo "patch does not apply"; git -C /repo worktree remove --force $WT; exit 2; }
cd /verif
for p in "$@"; do
  echo "##### $p on $(basename $(dirname $PATCH))"
  VERIF_REPO=$WT VERIF_SANDBOX=$NAME timeout ${SEED_TIMEOUT:-3000} ./check $p --tier ${SEED_TIER:-quick} 2>&1 | grep -E "^\[verif\]|violated|inconclusive|VIOLATION|KNOWN" | cut -c1-400
  echo "exit=${PIPESTATUS[0]}"
done
git -C /repo worktree remove --force $WT
