#!/bin/bash
# Run once in /verif after a fresh restore, offline.  Warms the two dependency caches
# (Kani goto-artefacts of the dependency crates, nightly rlibs for the MIR dump) so that the
# per-property checks only rebuild the engine crate.  Everything is re-creatable; build/ is
# git-ignored.
set -u
cd "$(dirname "$0")"
export CARGO_NET_OFFLINE=true
mkdir -p build/logs evidence
echo "[setup] warming MIR cache (nightly) ..."
VERIF_NO_MIR_CACHE=1 python3 - <<'PY' || echo "[setup] MIR warm-up failed (checks will retry)"
import sys
sys.path.insert(0, ".")
from vlib import runner
notes = []
runner.load_mir("lib", notes)
print(notes)
PY
echo "[setup] warming Kani dependency cache ..."
python3 - <<'PY' || echo "[setup] Kani warm-up failed (checks will retry)"
import sys
sys.path.insert(0, ".")
from vlib import overlay as ov, kani as kk
import os
with ov.Overlay("setup-kani", "kani") as o:
    o.add_support()
    o.add_noop_log_macro()
    o.append_module("rate_limiter.rs", os.path.join(ov.HARNESS_DIR, "rate_limiter_proofs.rs"))
    res, wall, cerr, out = kk.run_kani(o, ["rate_limiter::verif_proofs::c19_o1_refund_one"], harness_timeout=120, jobs=1, total_timeout=1500)
    print("kani warm-up: %.0fs %s" % (wall, cerr or {k: v.status for k, v in res.items()}))
PY
echo "[setup] done"
