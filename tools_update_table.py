#!/usr/bin/env python3
"""Rewrites the table of DESIGN.md section 6.3 from the current evidence files (run after a full quick run)."""
import re
import subprocess
import sys
import os
HERE = os.path.dirname(os.path.abspath(__file__))
tab = subprocess.run([sys.executable, os.path.join(HERE, "tools_table.py")], capture_output=True, text=True).stdout.strip()
rows = [l for l in tab.splitlines() if l.startswith("| C")]
total = sum(int(re.search(r"\| (\d+) s \|", l).group(1)) for l in rows)
p = os.path.join(HERE, "DESIGN.md")
s = open(p).read()
i = s.index("| prop | engines | obligations (held / known finding)")
j = s.index("\n\n", i)
s = s[:i] + tab + s[j:]
s = re.sub(r"(### 6\.3 What runs per property \(quick tier, final tree, this machine, run one after the other: )\d+ min in total\)", r"\g<1>%d min in total)" % round(total / 60.0), s)
open(p, "w").write(s)
print("table updated: %d rows, %d s" % (len(rows), total))
