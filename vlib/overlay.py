"""Overlay builder: a scratch copy of /repo's crate with harness modules appended.

Nothing in /repo is modified.  The overlay is regenerated from /repo's *working tree* on every
run, so checks always see the current source.  See DESIGN.md section 1.1.
"""
import fcntl
import hashlib
import os
import re
import shutil
import subprocess
import sys

REPO = os.environ.get("VERIF_REPO", "/repo")
VERIF = os.path.dirname(os.path.dirname(os.path.abspath(__file__)))
# Dev only: VERIF_SANDBOX=<name> (with VERIF_REPO=<scratch worktree>) gives a run its own build, scratch and
# evidence directories so that a seeded tree can be checked while the registered checks run against /repo.
SANDBOX = os.environ.get("VERIF_SANDBOX", "")
SCRATCH_ROOT = os.environ.get("VERIF_SCRATCH", "/var/tmp/kyrodb-verif" + ("-" + SANDBOX if SANDBOX else ""))
HARNESS_DIR = os.environ.get("VERIF_DEV_HARNESS_DIR") or os.path.join(VERIF, "harness")  # env: development aid only
BUILD_DIR = os.path.join(VERIF, "build", "sandbox-" + SANDBOX) if SANDBOX else os.path.join(VERIF, "build")

TRACING_MACROS = ["trace", "debug", "info", "warn", "error"]


class OverlayError(Exception):
    pass


def sha256_text(s):
    return hashlib.sha256(s.encode("utf-8", "replace")).hexdigest()


def _copy_tree(src, dst):
    if os.path.isdir(src):
        shutil.copytree(src, dst, symlinks=True)
    elif os.path.exists(src):
        os.makedirs(os.path.dirname(dst), exist_ok=True)
        shutil.copy2(src, dst)


class Overlay:
    """A scratch copy of the crate.  `kind` is 'kani' (harnesses appended, cfg(kani) edits
    applied), 'mir' (pristine copy for the MIR dump) or 'native' (pristine copy + replay
    drivers as examples)."""

    def __init__(self, name, kind="kani"):
        self.name = name
        self.kind = kind
        self.root = os.path.join(SCRATCH_ROOT, name)
        self.lock_fh = None
        self.edits = []  # (file, description)

    # -- lifecycle -------------------------------------------------------------------------
    def __enter__(self):
        os.makedirs(SCRATCH_ROOT, exist_ok=True)
        self.lock_fh = open(os.path.join(SCRATCH_ROOT, self.name + ".lock"), "w")
        fcntl.flock(self.lock_fh, fcntl.LOCK_EX)
        if os.path.exists(self.root):
            shutil.rmtree(self.root)
        os.makedirs(self.root)
        self._copy()
        return self

    def __exit__(self, *exc):
        try:
            if not os.environ.get("VERIF_KEEP_OVERLAY"):
                shutil.rmtree(self.root, ignore_errors=True)
        finally:
            if self.lock_fh:
                fcntl.flock(self.lock_fh, fcntl.LOCK_UN)
                self.lock_fh.close()
        return False

    def _copy(self):
        for f in ("Cargo.toml", "Cargo.lock"):
            _copy_tree(os.path.join(REPO, f), os.path.join(self.root, f))
        for f in ("Cargo.toml", "build.rs", "proto", "src", "benches"):
            _copy_tree(os.path.join(REPO, "engine", f), os.path.join(self.root, "engine", f))
        # workspace-level: patched backtrace (see DESIGN 1.1 item 3)
        ws = os.path.join(self.root, "Cargo.toml")
        with open(ws) as fh:
            s = fh.read()
        if self.kind == "kani":
            s += '\n\n[patch.crates-io]\nbacktrace = { path = "%s" }\n' % os.path.join(
                VERIF, "third_party", "backtrace"
            )
        with open(ws, "w") as fh:
            fh.write(s)
        # .cargo/config.toml: offline
        os.makedirs(os.path.join(self.root, ".cargo"), exist_ok=True)
        with open(os.path.join(self.root, ".cargo", "config.toml"), "w") as fh:
            fh.write("[net]\noffline = true\n")

    # -- paths -----------------------------------------------------------------------------
    def src(self, rel):
        return os.path.join(self.root, "engine", "src", rel)

    def read(self, rel):
        with open(self.src(rel)) as fh:
            return fh.read()

    def write(self, rel, text):
        with open(self.src(rel), "w") as fh:
            fh.write(text)

    # -- edits (cfg(kani)-guarded; every one is recorded and reported in evidence) -----------
    def append_module(self, rel, harness_path, modname="verif_proofs"):
        if not os.path.exists(harness_path):
            raise OverlayError("harness file missing: " + harness_path)
        s = self.read(rel)
        s += '\n#[cfg(kani)]\n#[path = "%s"]\npub(crate) mod %s;\n' % (harness_path, modname)
        self.write(rel, s)
        self.edits.append((rel, "append cfg(kani) child module %s -> %s" % (modname, harness_path)))

    def add_support(self, extra=()):
        """Add crate-level support modules (stubs, fs model) to lib.rs."""
        s = self.read("lib.rs")
        mods = [("verif_support", os.path.join(HARNESS_DIR, "support", "verif_support.rs"))]
        for m in extra:
            mods.append((m, os.path.join(HARNESS_DIR, "support", m + ".rs")))
        for name, path in mods:
            s += '\n#[cfg(kani)]\n#[path = "%s"]\npub mod %s;\n' % (path, name)
            self.edits.append(("lib.rs", "append cfg(kani) support module " + name))
        self.write("lib.rs", s)

    def elide_tracing(self, rel):
        """Shadow tracing's event macros with empty macro_rules under cfg(kani) (Kani 0.68 ICEs
        on their expansion) and blank #[instrument] attributes.  Returns True on success."""
        s = self.read(rel)
        m = re.search(r"^use tracing::\{([^}]*)\};[ \t]*$", s, re.M) or re.search(
            r"^use tracing::(\w+);[ \t]*$", s, re.M
        )
        if not m:
            return False
        names = [n.strip() for n in m.group(1).split(",") if n.strip()]
        macros = [n for n in names if n in TRACING_MACROS]
        others = [n for n in names if n not in TRACING_MACROS]
        repl = "#[cfg(not(kani))]\n" + m.group(0) + "\n"
        if [n for n in others if n != "instrument"]:
            repl += "#[cfg(kani)]\nuse tracing::{%s};\n" % ", ".join(
                n for n in others if n != "instrument"
            )
        for mac in macros:
            repl += "#[cfg(kani)]\nmacro_rules! %s { ($($t:tt)*) => {{}}; }\n" % mac
        s = s[: m.start()] + repl + s[m.end():]
        # blank #[instrument(...)] attributes (possibly multi-line) under kani: replace by cfg_attr
        s = re.sub(r"#\[instrument\(", "#[cfg_attr(not(kani), instrument(", s)
        # close the extra paren: find each cfg_attr(not(kani), instrument( ... )] and add ')'
        out = []
        i = 0
        key = "#[cfg_attr(not(kani), instrument("
        while True:
            j = s.find(key, i)
            if j < 0:
                out.append(s[i:])
                break
            out.append(s[i:j])
            k = j + len(key)
            depth = 1
            while depth > 0:
                c = s[k]
                if c == "(":
                    depth += 1
                elif c == ")":
                    depth -= 1
                k += 1
            # s[k-1] == ')' closing instrument( ; expect ']' next
            out.append(s[j:k] + ")")
            i = k
        s = "".join(out)
        # also fully-qualified tracing::warn!( ... ) calls
        s = re.sub(r"\btracing::(trace|debug|info|warn|error)!\(", r"crate::verif_noop_log!(", s)
        self.write(rel, s)
        self.edits.append((rel, "cfg(kani): tracing event macros %s shadowed by empty macros; #[instrument] disabled" % macros))
        return True

    def add_noop_log_macro(self):
        s = self.read("lib.rs")
        s = s + "\n#[cfg(kani)]\n#[macro_export]\nmacro_rules! verif_noop_log { ($($t:tt)*) => {{}}; }\n"
        self.write("lib.rs", s)

    def replace_once(self, rel, old, new, desc):
        s = self.read(rel)
        if s.count(old) != 1:
            return False
        self.write(rel, s.replace(old, new))
        self.edits.append((rel, desc))
        return True

    def strip_bins_with_required_features(self):
        p = os.path.join(self.root, "engine", "Cargo.toml")
        with open(p) as fh:
            s = fh.read()
        blocks = re.split(r"\n(?=\[)", s)
        out = [b for b in blocks if not (b.startswith("[[bin]]") and "required-features" in b)]
        with open(p, "w") as fh:
            fh.write("\n".join(out))
        self.edits.append(("engine/Cargo.toml", "removed [[bin]] entries with required-features (overlay only)"))


def repo_head():
    try:
        return subprocess.check_output(["git", "-C", REPO, "rev-parse", "HEAD"], text=True).strip()
    except Exception:
        return "unknown"


def repo_dirty():
    try:
        return bool(subprocess.check_output(["git", "-C", REPO, "status", "--porcelain", "--", "engine/src"], text=True).strip())
    except Exception:
        return False


def function_source(rel, name_regex):
    """Return the text of the first `fn` whose header matches name_regex in /repo's engine/src/rel
    (brace matching; good enough for hashing what was encoded)."""
    path = os.path.join(REPO, "engine", "src", rel)
    try:
        s = open(path).read()
    except OSError:
        return None
    m = re.search(r"fn\s+" + name_regex + r"\b", s)
    if not m:
        return None
    i = s.find("{", m.end())
    if i < 0:
        return None
    depth = 0
    k = i
    while k < len(s):
        if s[k] == "{":
            depth += 1
        elif s[k] == "}":
            depth -= 1
            if depth == 0:
                break
        k += 1
    return s[m.start(): k + 1]
