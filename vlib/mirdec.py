"""Engine M, decision predicates ("DECIDES"): the condition under which a region of a MIR body reaches one outcome
rather than another is extracted from the CFG as an SMT formula over named atoms and compared with the property's own
predicate by z3.

    P(block) = OR over incoming edges ( P(pred) AND cond(edge) )          (region = DAG between start and outcomes)

Every switch discriminant is translated from its def-use provenance expression (mirflow.origin): comparisons of integers
become integer (in)equalities over atoms (operands matched by the obligation's regexes: e.g. entry.seq_no, the snapshot's
last sequence number), enum discriminants become integer variables, everything else (opaque calls, tracing level tests)
becomes an uninterpreted boolean keyed by its provenance text — such conditions cancel out where both arms re-join and
show up in the counterexample where they do not.  The obligation  NOT (P(target) <=> spec)  is sent to z3: unsat = the
code decides exactly as the property says for every value of the atoms; sat = concrete values on which it does not.

`&&` / `||` / `matches!` lower to flag locals assigned in different predecessor blocks; a statement-free switch on such
a flag is resolved per incoming edge (the reaching definition in that predecessor), constants select their arm directly.
"""
import re
import subprocess
import time

from . import mir as M
from . import mirflow as MF


def _untag(t):
    return re.sub("\u27e8[^\u27e9]*\u27e9", "", t)


class Ctx:
    def __init__(self, atoms):
        # atom = (name, regex over the untagged provenance text[, regex over the call-site tagged text])
        self.atoms = [(a[0], re.compile(a[1]), re.compile(a[2]) if len(a) > 2 and a[2] else None) for a in atoms]
        self.pure = set(a[0] for a in atoms if len(a) > 3 and a[3] == "pure")  # same value at every call site (a pure function of unchanged state)
        self.atom_sites = {}  # atom name -> set of tagged texts it matched
        self.int_vars = {}   # text -> smt name
        self.bool_vars = {}
        self.notes = []
        self.domains = []  # extra assertions: an exhaustively matched discriminant takes one of its listed values

    def _atom(self, text):
        u = _untag(text)
        for n, rx, srx in self.atoms:
            if rx.search(u) and (srx is None or srx.search(text)):
                self.atom_sites.setdefault(n, set()).add(text)
                return n
        return None

    def conflated(self):
        """Atoms that matched call results from more than one call site (two different run-time values under one name)."""
        bad = []
        for n, texts in self.atom_sites.items():
            if n in self.pure:
                continue
            sites = set()
            for t in texts:
                if _untag(t).startswith("call "):
                    tags = re.findall("\u27e8(bb\\d+)", t)
                    if tags:
                        sites.add(tags[-1])  # the outermost call's own tag is the last one in the text
            if len(sites) > 1:
                bad.append("%s (%s)" % (n, ", ".join(sorted(sites))))
        return bad

    def ivar(self, text):
        n = self._atom(text)
        if n is not None:
            self.int_vars.setdefault("atom:" + n, n)
            return n
        if text not in self.int_vars:
            self.int_vars[text] = "i%d" % len(self.int_vars)
            self.notes.append("%s = %s" % (self.int_vars[text], text[:140]))
        return self.int_vars[text]

    def bvar(self, text):
        n = self._atom(text)
        if n is not None:
            self.bool_vars.setdefault("atom:" + n, n)
            return n
        if text not in self.bool_vars:
            self.bool_vars[text] = "b%d" % len(self.bool_vars)
            self.notes.append("%s = %s" % (self.bool_vars[text], text[:140]))
        return self.bool_vars[text]


_INT_CONST = re.compile(r"^const (-?\d+)_(?:u|i)(?:8|16|32|64|128|size)$")
_CMP = {"Eq": "=", "Ne": "distinct", "Lt": "<", "Le": "<=", "Gt": ">", "Ge": ">="}


def _strip(o):
    o = o.strip()
    while True:
        m = re.match(r"^\{(.*)\}$", o)
        if m and _balanced(m.group(1)):
            o = m.group(1).strip()
            continue
        m = re.match(r"^(.*) as (?:u|i)(?:8|16|32|64|128|size) \(IntToInt\)$", o)
        if m:
            o = m.group(1).strip()
            continue
        m = re.match(r"^(?:move|copy) (.*)$", o)
        if m:
            o = m.group(1).strip()
            continue
        return o


def _balanced(s):
    d = 0
    for c in s:
        if c in "({[":
            d += 1
        elif c in ")}]":
            d -= 1
            if d < 0:
                return False
    return d == 0


def int_term(ctx, o):
    o = _strip(o)
    m = _INT_CONST.match(o)
    if m:
        v = int(m.group(1))
        return str(v) if v >= 0 else "(- %d)" % -v
    m = re.match(r"^(Add|Sub|Mul)\((.*)\)$", o)
    if m:
        parts = M._split_top(m.group(2))
        if len(parts) == 2:
            return "(%s %s %s)" % ({"Add": "+", "Sub": "-", "Mul": "*"}[m.group(1)], int_term(ctx, parts[0]), int_term(ctx, parts[1]))
    return ctx.ivar(o)


def bool_term(ctx, o):
    """SMT Bool for a boolean provenance expression."""
    o = _strip(o)
    if o == "const true":
        return "true"
    if o == "const false":
        return "false"
    m = re.match(r"^(?:not|ensure_not)\((.*)\)$", o)
    if m and _balanced(m.group(1)):
        return "(not %s)" % bool_term(ctx, m.group(1))
    m = re.match(r"^(Eq|Ne|Lt|Le|Gt|Ge)\((.*)\)$", o)
    if m and _balanced(m.group(2)):
        parts = M._split_top(m.group(2))
        if len(parts) == 2:
            a, b = _strip(parts[0]), _strip(parts[1])
            if b in ("const true", "const false") or a in ("const true", "const false"):
                x, y = bool_term(ctx, a), bool_term(ctx, b)
                return "(= %s %s)" % (x, y) if m.group(1) == "Eq" else "(not (= %s %s))" % (x, y)
            if re.search(r"f32|f64", a + b) and not _INT_CONST.match(a) and not _INT_CONST.match(b) and re.search(r"const [-\d.eE+]+f(32|64)", a + b):
                return ctx.bvar(o)  # float comparison: opaque
            return "(%s %s %s)" % (_CMP[m.group(1)], int_term(ctx, a), int_term(ctx, b))
    m = re.match(r"^(BitAnd|BitOr)\((.*)\)$", o)
    if m and _balanced(m.group(2)):
        parts = M._split_top(m.group(2))
        if len(parts) == 2:
            return "(%s %s %s)" % ("and" if m.group(1) == "BitAnd" else "or", bool_term(ctx, parts[0]), bool_term(ctx, parts[1]))
    return ctx.bvar(o)


def arm_cond(ctx, o, label, all_labels):
    """Condition under which a switch on provenance `o` takes the arm `label`."""
    o = _strip(o)
    m = re.match(r"^discr\((.*)\)$", o)
    if m and _balanced(m.group(1)):
        d = ctx.ivar("discr:" + m.group(1))
        if label == "otherwise":
            others = [l for l in all_labels if l != "otherwise"]
            return "(and %s)" % " ".join("(distinct %s %s)" % (d, l) for l in others) if others else "true"
        return "(= %s %s)" % (d, label)
    # integer-valued switch (e.g. on a u8/usize) vs boolean switch
    nonbool = [l for l in all_labels if l not in ("0", "1", "otherwise")]
    if nonbool:
        t = int_term(ctx, o)
        if label == "otherwise":
            others = [l for l in all_labels if l != "otherwise"]
            return "(and %s)" % " ".join("(distinct %s %s)" % (t, l) for l in others)
        return "(= %s %s)" % (t, label)
    b = bool_term(ctx, o)
    if label == "0":
        return "(not %s)" % b
    return b  # '1' / 'otherwise'


class Region:
    """Block-level DAG between start blocks and outcome blocks."""

    def __init__(self, fn, starts, outcomes, atoms, extra_stop=()):
        self.fn = fn
        self.ctx = Ctx(atoms)
        self.starts = list(starts)
        self.outcomes = outcomes  # name -> set(block idx)
        self.stop = set(extra_stop)  # blocks at which the region ends without being an outcome (e.g. "the next item is read")
        for s in outcomes.values():
            self.stop |= set(s)
        self.dropped_back_edges = 0
        self.defs = []  # smt define-fun lines in dependency order
        self.P = {}
        self._build()

    def _flag_def(self, pred, loc):
        """Last assignment `loc = rhs;` in block `pred` (or None)."""
        rhs = None
        for s_ in pred.stmts:
            m = re.match(r"^%s = (.*);$" % re.escape(loc), s_)
            if m:
                rhs = m.group(1)
        if rhs is None and pred.kind == "call" and pred.dest == loc:
            rhs = "CALL %s(%s)" % (pred.callee or "", pred.args)
        return rhs

    def _flag_local(self, b):
        """The local a switch block really tests: the switch operand followed through in-block `x = copy y` chains.
        None when the operand is computed inside the block."""
        m = re.match(r"^(?:move |copy )?(_\d+)$", (b.switch_local or "").strip())
        if not m:
            return None
        loc = m.group(1)
        for _ in range(6):
            d = None
            for s_ in b.stmts:
                mm = re.match(r"^%s = (.*);$" % re.escape(loc), s_)
                if mm:
                    d = mm.group(1)
            if d is None:
                return loc
            mm = re.match(r"^(?:copy|move) (_\d+)$", d)
            if not mm:
                return None
            loc = mm.group(1)
        return None

    def _resolve_at(self, loc, chain, depth=0):
        """Provenance of `loc` as defined along the chain of predecessor blocks (nearest first); follows copies and
        `anyhow::__private::not` / `Not` of another multiply-assigned local one more step up the chain."""
        fn = self.fn
        if not chain or depth > 4:
            return None
        rhs = None
        while chain:
            p = chain[0]
            rhs = self._flag_def(p, loc)
            if rhs is not None:
                break
            chain = chain[1:]  # a pass-through block: look further up
        if rhs is None:
            return None
        rhs = rhs.strip()
        m = re.match(r"^CALL anyhow::__private::not(?:::<.*>)?\((?:move |copy )?(_\d+)\)$", rhs) or re.match(r"^Not\((?:move |copy )?(_\d+)\)$", rhs)
        if m and len(fn.build_defs().get(m.group(1)) or []) > 1:
            inner = self._resolve_at(m.group(1), chain[1:], depth + 1)
            if inner is None:
                inner = self._resolve_at(m.group(1), chain, depth + 1)  # defined earlier in the same block
            if inner is not None:
                return "not(%s)" % inner
        m = re.match(r"^(?:move|copy) (_\d+)$", rhs)
        if m and len(fn.build_defs().get(m.group(1)) or []) > 1:
            inner = self._resolve_at(m.group(1), chain[1:], depth + 1) or self._resolve_at(m.group(1), chain, depth + 1)
            if inner is not None:
                return inner
        o = MF.rhs_origin(fn, rhs, 0, set())
        if MF.SITE_TAGS and rhs.startswith("CALL ") and o.startswith("call ") and p.kind == "call" and p.dest == loc:
            o += MF.site_tag(fn, p.idx)  # same identity as mirflow.origin gives this call result
        return o

    def _passes_flag(self, b):
        """A block that only transforms a multiply-assigned flag (not(flag) / copy) before the switch that tests it: it is
        split per predecessor too, so that the switch can see through it."""
        if b.kind == "call" and re.search(r"anyhow::__private::not", b.callee or ""):
            for a in re.findall(r"_\d+", b.args):
                if len(self.fn.build_defs().get(a) or []) > 1:
                    return True
        return False

    def _succ_edges(self, b, via=None):
        """[(target idx, smt cond)] for leaving block b.  `via` = predecessor block (for flag switches)."""
        fn, ctx = self.fn, self.ctx
        if b.kind != "switch":
            return [(t, "true") for (_l, t) in b.succs if t in fn.blocks and not fn.blocks[t].cleanup]
        labels = [l for l, _t in b.succs]
        loc = self._flag_local(b)
        o = None
        if loc and via:
            o = self._resolve_at(loc, [fn.blocks[v] for v in via])
        if o is None:
            # discriminant(_x) statements inside the block, or a single reaching definition
            o = MF.origin(fn, b.switch_local or "")
            if loc and o.startswith("alt(") and len(fn.build_defs().get(loc) or []) > 1:
                # a loop-carried / multiply-assigned flag whose reaching definition lies outside the region: an opaque
                # boolean of its own, named after the source variable (so that obligations can use it as an atom)
                dbg = [k for k, v in fn.debug.items() if v.strip() == loc]
                o = "flag %s %s" % (loc, dbg[0] if dbg else "")
        out = []
        exhaustive = False
        for lab, t in b.succs:
            if t not in fn.blocks or fn.blocks[t].cleanup:
                continue
            # unreachable `otherwise` arms of exhaustive matches
            if fn.blocks[t].kind == "unreachable":
                exhaustive = exhaustive or lab == "otherwise"
                continue
            out.append((t, arm_cond(ctx, o, lab, labels)))
        if exhaustive:
            listed = [l for l in labels if l != "otherwise"]
            o2 = _strip(o)
            m2 = re.match(r"^discr\((.*)\)$", o2)
            if m2 and _balanced(m2.group(1)) and listed:
                d = ctx.ivar("discr:" + m2.group(1))
                dom = "(or %s)" % " ".join("(= %s %s)" % (d, l) for l in listed)
                if dom not in ctx.domains:
                    ctx.domains.append(dom)
        return out

    def _needs_via(self, b):
        """A statement-free switch on a local with several definitions: resolve per incoming edge."""
        if self._passes_flag(b):
            return True
        if b.kind != "switch":
            return False
        loc = self._flag_local(b)
        if loc is None:
            return False
        ds = self.fn.build_defs().get(loc) or []
        if len(ds) > 1:
            return True
        if len(ds) == 1:
            rhs = ds[0][2].strip()
            m = re.match(r"^CALL anyhow::__private::not(?:::<.*>)?\((?:move |copy )?(_\d+)\)$", rhs) or re.match(r"^Not\((?:move |copy )?(_\d+)\)$", rhs) or re.match(r"^(?:move|copy) (_\d+)$", rhs)
            if m and len(self.fn.build_defs().get(m.group(1)) or []) > 1:
                return True
        return False

    def _history_blocks(self):
        """Blocks within 3 steps before a block that needs its reaching definitions resolved: they carry a short history."""
        fn = self.fn
        need = set(i for i, b in fn.blocks.items() if not b.cleanup and self._needs_via(b))
        preds = {}
        for i, b in fn.blocks.items():
            if b.cleanup:
                continue
            for (_l, t) in b.succs:
                preds.setdefault(t, set()).add(i)
        hist = set(need)
        frontier = set(need)
        for _ in range(3):
            nxt = set()
            for x in frontier:
                for p_ in preds.get(x, ()):  # noqa: B007
                    if p_ not in hist:
                        hist.add(p_)
                        nxt.add(p_)
            frontier = nxt
        return hist

    def _build(self):
        fn = self.fn
        # nodes: (block idx, via) where via is None or the predecessor idx for flag switches
        succ = {}
        order = []
        state = {}
        hist = self._history_blocks()

        def node_succs(n):
            idx, via = n
            b = fn.blocks[idx]
            if idx in self.stop and n not in [(s, None) for s in self.starts]:
                return []
            res = []
            for (t, c) in self._succ_edges(b, via):
                tb = fn.blocks[t]
                chain = ((idx,) + (via or ()))[:4] if t in hist else None
                res.append(((t, chain), c))
            return res

        import sys
        sys.setrecursionlimit(max(10000, sys.getrecursionlimit()))

        def dfs(n):
            state[n] = 1
            outs = []
            for (m_, c) in node_succs(n):
                if state.get(m_) == 1:
                    self.dropped_back_edges += 1
                    continue
                outs.append((m_, c))
                if m_ not in state:
                    dfs(m_)
            succ[n] = outs
            state[n] = 2
            order.append(n)

        roots = [(s, None) for s in self.starts]
        for r in roots:
            if r not in state:
                dfs(r)
        order.reverse()  # topological
        name = {n: "p%d" % i for i, n in enumerate(order)}
        incoming = {n: [] for n in order}
        for n in order:
            for (m_, c) in succ[n]:
                incoming[m_].append((n, c))
        for n in order:
            if n in roots:
                self.defs.append("(define-fun %s () Bool true)" % name[n])
                continue
            terms = ["(and %s %s)" % (name[p], c) if c != "true" else name[p] for (p, c) in incoming[n]]
            self.defs.append("(define-fun %s () Bool %s)" % (name[n], ("(or %s)" % " ".join(terms)) if len(terms) > 1 else (terms[0] if terms else "false")))
        self.name = name
        self.order = order

    def outcome_pred(self, oname):
        ns = [self.name[n] for n in self.order if n[0] in self.outcomes[oname] and n not in [(s, None) for s in self.starts]]
        if not ns:
            return "false"
        return "(or %s)" % " ".join(ns) if len(ns) > 1 else ns[0]

    def smt_prelude(self):
        lines = ["(set-logic ALL)", "(set-option :produce-models true)"]
        for text, v in sorted(self.ctx.int_vars.items(), key=lambda kv: kv[1]):
            lines.append("(declare-const %s Int)" % v)
            if not text.startswith("discr:"):
                lines.append("(assert (>= %s 0))" % v)
        for _text, v in sorted(self.ctx.bool_vars.items(), key=lambda kv: kv[1]):
            lines.append("(declare-const %s Bool)" % v)
        return lines + ["(assert %s)" % d for d in self.ctx.domains] + self.defs


def solve(lines, z3_bin=None):
    t0 = time.time()
    smt = "\n".join(lines + ["(check-sat)", "(get-model)"]) + "\n"
    try:
        p = subprocess.run([z3_bin or MF.Z3_BIN, "-in", "-T:60"], input=smt, stdout=subprocess.PIPE, stderr=subprocess.STDOUT, text=True, timeout=90)
        out = p.stdout
    except Exception as e:  # noqa: BLE001
        MF.STATS.queries += 1
        return "unknown", str(e), time.time() - t0
    MF.STATS.queries += 1
    dt = time.time() - t0
    MF.STATS.seconds += dt
    first = out.strip().splitlines()[0] if out.strip() else ""
    errs = [l for l in out.splitlines() if "(error" in l and "model is not available" not in l]
    if errs:
        return "unknown", errs[0][:300], dt
    if first == "unsat":
        return "unsat", None, dt
    if first == "sat":
        model = dict(re.findall(r"\(define-fun ([A-Za-z_]\w*) \(\) (?:Int|Bool)\s+(\(- \d+\)|\d+|true|false)\)", out))
        return "sat", model, dt
    return "unknown", out[:200], dt


def decides(funcs, fname, start, outcomes, atoms, spec, containing=None, declare=(), assume=None, what="", stop=None):
    """outcomes: {name: Ev | Arm}; spec: {name: smt bool over the atoms} — for every listed name the extracted predicate
    must be equivalent to the spec formula.  start: 'entry' | Ev (region starts at the successors of the matching block) | Arm."""
    fc = MF.FnCheck(funcs, fname, containing=containing)
    if fc.fn is None:
        return [fc.missing()]
    fn = fc.fn

    def blocks_of(x):
        if isinstance(x, str):  # regex over switch provenance: the switch blocks themselves
            return set(i for i, b in fn.blocks.items() if not b.cleanup and b.kind == "switch" and re.search(x, MF.origin(fn, b.switch_local or "")))
        if isinstance(x, MF.Arm):
            return set(x.target_blocks(fn))
        return set(i for i, b in fn.blocks.items() if not b.cleanup and x.match_block(fn, b))

    if start == "entry":
        starts = [0]
    else:
        starts = sorted(blocks_of(start))
    if not starts:
        return [MF.Result("inconclusive", "start of the decision region (%s) matched nothing in %s" % (getattr(start, "name", start), fc.name))]
    ob = {}
    for n, x in outcomes.items():
        ob[n] = blocks_of(x)
        if not ob[n]:
            return [MF.Result("inconclusive", "outcome %s (%s) matched nothing in %s" % (n, getattr(x, "name", "?"), fc.name))]
    MF.SITE_TAGS = True
    try:
        extra = sorted(blocks_of(stop)) if stop is not None else []
        if stop is not None and not extra:
            return [MF.Result("inconclusive", "end of the decision region (%s) matched nothing in %s" % (getattr(stop, "name", stop), fc.name))]
        reg = Region(fn, starts, ob, atoms, extra_stop=extra)
    except RecursionError:
        return [MF.Result("inconclusive", "decision region of %s too deep" % fc.name)]
    finally:
        MF.SITE_TAGS = False
    bad = reg.ctx.conflated()
    if bad:
        return [MF.Result("inconclusive", "atom(s) match results of several call sites in %s: %s — give the atom a call-site pattern" % (fc.name, "; ".join(bad)))]
    out = []
    for n, formula in spec.items():
        rel = "="
        if isinstance(formula, tuple):  # ("=>", f): the code reaches the outcome only if f;  ("<=", f): whenever f, the code reaches it
            rel, formula = formula
        lines = reg.smt_prelude()
        # atoms used only by the spec must be declared too
        declared = set(re.findall(r"\(declare-const (\w+) ", "\n".join(lines)))
        for a, _rx, _srx in reg.ctx.atoms:
            if a not in declared and re.search(r"\b%s\b" % re.escape(a), formula + (assume or "")):
                kind = "Bool" if a in declare else "Int"
                lines.append("(declare-const %s %s)" % (a, kind))
                if kind == "Int":
                    lines.append("(assert (>= %s 0))" % a)
        if assume:
            lines.append("(assert %s)" % assume)
        P = reg.outcome_pred(n)
        if rel == "=":
            lines.append("(assert (not (= %s %s)))" % (P, formula))
        elif rel == "=>":
            lines.append("(assert (not (=> %s %s)))" % (P, formula))
        else:
            lines.append("(assert (not (=> %s %s)))" % (formula, P))
        res, model, dt = solve(lines)
        smp = {"fn": fc.name, "kind": "DECIDES", "outcome": n, "relation": {"=": "outcome <=> spec", "=>": "outcome => spec", "<=": "spec => outcome"}[rel], "spec": formula[:200], "region_nodes": len(reg.order), "atoms": [a[0] for a in reg.ctx.atoms],
               "opaque_conditions": len([k for k in reg.ctx.bool_vars if not k.startswith("atom:")]), "dropped_back_edges": reg.dropped_back_edges}
        if res == "unsat":
            out.append(MF.Result("holds", "unsat: %s decides `%s` exactly as specified" % (fc.name.split("::")[-1], n), queries=1, seconds=dt, sample=smp))
        elif res == "sat":
            names = {v: k for k, v in list(reg.ctx.int_vars.items()) + list(reg.ctx.bool_vars.items())}
            vals, opaque = [], []
            atom_names = [a[0] for a in reg.ctx.atoms]
            for k, v in sorted(model.items()):
                if re.match(r"^p\d+$", k):
                    continue
                if k in atom_names:
                    vals.append("%s=%s" % (k, v))
                else:
                    opaque.append("%s[%s]=%s" % (k, _untag(names.get(k, "?"))[:50], v))
            vals = vals + opaque  # the named atoms first
            # does the code reach the outcome on these values?
            out.append(MF.Result("violated", "%s: the code's condition for `%s` differs from the property's (%s) at: %s" % (what or fc.name.split("::")[-1], n, formula[:120], ", ".join(vals)[:700]),
                                 queries=1, seconds=dt, sample=smp))
        else:
            out.append(MF.Result("inconclusive", "z3: %s" % str(model)[:200], queries=1, seconds=dt, sample=smp))
    return out
