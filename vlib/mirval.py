"""Engine M, value slice: translate the def-use slice of an integer operand in a MIR body to an SMT
term (mathematical integers with the unsigned range constraint; wrap-around is excluded because the
dev profile panics on overflow) and let z3 decide small arithmetic obligations such as "this divisor is
never zero" or "every returned value is >= 1".  Unknown calls become fresh variables constrained only
by their type; a handful of std functions have exact models (max, min, clamp, unwrap_or, len, count,
sum).  A recursive call to the function under analysis is a fresh variable constrained by the
induction hypothesis the obligation states (and proves for every return site).
"""
import re
import subprocess
import time

from . import mir as M
from . import mirflow as MF


class Ctx:
    def __init__(self, fn, self_name, ih_ge=None):
        self.fn = fn
        self.self_name = self_name  # short name of the function under analysis (for recursion)
        self.ih_ge = ih_ge
        self.decls = []
        self.asserts = []
        self.n = 0
        self.notes = []

    def fresh(self, why, lo=0, hi=None):
        self.n += 1
        v = "v%d" % self.n
        self.decls.append("(declare-const %s Int) ; %s" % (v, why[:90]))
        if lo is not None:
            self.asserts.append("(>= %s %d)" % (v, lo))
        if hi is not None:
            self.asserts.append("(<= %s %d)" % (v, hi))
        self.notes.append("%s = %s" % (v, why[:100]))
        return v


_CONST = re.compile(r"^const (-?\d+)_(usize|u64|u32|u16|u8|isize|i64|i32)$")


def term(ctx, operand, depth=0, seen=()):
    fn = ctx.fn
    op = operand.strip()
    m = _CONST.match(op)
    if m:
        return m.group(1)
    m = re.match(r"^(?:move |copy )?(_\d+)$", op)
    if not m:
        return ctx.fresh("opaque operand " + MF.short_ty(op))
    loc = m.group(1)
    if loc in seen or depth > 12:
        return ctx.fresh("cyclic " + loc)
    defs = fn.build_defs().get(loc)
    if not defs:
        return ctx.fresh("argument/undefined %s: %s" % (loc, MF.short_ty(fn.locals.get(loc, "?"))))
    alts = [rhs_term(ctx, rhs, depth + 1, seen + (loc,)) for (_b, _i, rhs) in defs[:4]]
    if len(alts) == 1:
        return alts[0]
    v = ctx.fresh("phi " + loc)
    ctx.asserts.append("(or %s)" % " ".join("(= %s %s)" % (v, a) for a in alts))
    return v


def rhs_term(ctx, rhs, depth, seen):
    rhs = rhs.strip()
    m = _CONST.match(rhs)
    if m:
        return m.group(1)
    m = re.match(r"^(move|copy) (_\d+)$", rhs)
    if m:
        return term(ctx, m.group(2), depth, seen)
    m = re.match(r"^(Add|Sub|Mul|Div|Rem)\((.*)\)$", rhs)
    if m:
        a, b = [term(ctx, x, depth, seen) for x in M._split_top(m.group(2))[:2]]
        opn = {"Add": "+", "Sub": "-", "Mul": "*", "Div": "div", "Rem": "mod"}[m.group(1)]
        return "(%s %s %s)" % (opn, a, b)
    m = re.match(r"^(.*) as (usize|u64|u32) \(IntToInt\)$", rhs)
    if m:
        return term(ctx, m.group(1), depth, seen)
    m = re.match(r"^CALL (.*)\((.*)\)$", rhs)
    if m:
        callee, args = MF.short_ty(m.group(1)), M._split_top(m.group(2))
        if re.search(r"(^|::)%s$" % re.escape(ctx.self_name), re.sub(r"::<.*>$", "", callee)):
            return ctx.fresh("recursive call (induction hypothesis >= %s)" % ctx.ih_ge, lo=(ctx.ih_ge if ctx.ih_ge is not None else 0))
        if re.search(r"Ord>::max$|cmp::max::<", callee):
            a, b = term(ctx, args[0], depth, seen), term(ctx, args[1], depth, seen)
            return "(ite (>= %s %s) %s %s)" % (a, b, a, b)
        if re.search(r"Ord>::min$|cmp::min::<", callee):
            a, b = term(ctx, args[0], depth, seen), term(ctx, args[1], depth, seen)
            return "(ite (<= %s %s) %s %s)" % (a, b, a, b)
        if re.search(r"Ord>::clamp$", callee):
            x, lo, hi = [term(ctx, a_, depth, seen) for a_ in args[:3]]
            return "(ite (< %s %s) %s (ite (> %s %s) %s %s))" % (x, lo, lo, x, hi, hi, x)
        if re.search(r"Option::<(usize|u64|u32)>::unwrap_or$", callee):
            inner = option_payload(ctx, args[0], depth, seen)
            d = term(ctx, args[1], depth, seen)
            v = ctx.fresh("unwrap_or")
            ctx.asserts.append("(or (= %s %s) (= %s %s))" % (v, d, v, inner))
            return v
        if re.search(r"saturating_(add|mul)$", callee):
            a, b = term(ctx, args[0], depth, seen), term(ctx, args[1], depth, seen)
            v = ctx.fresh("saturating op")
            ctx.asserts.append("(>= %s %s)" % (v, a))
            return v
        if re.search(r"::(len|count)$|as Iterator>::count$", re.sub(r"::<.*>$", "", callee)):
            return ctx.fresh("%s (>= 0)" % callee[-40:])
        if re.search(r"as Iterator>::sum::<", callee):
            # a sum of elements: if the elements are results of the analysed function, sum >= 0 (empty) — and
            # sum >= ih * count is not needed by the obligations here
            return ctx.fresh("iterator sum (>= 0)")
        return ctx.fresh("call " + callee[-60:])
    return ctx.fresh("rvalue " + MF.short_ty(rhs)[:60])


def option_payload(ctx, operand, depth, seen):
    """Payload of an Option<int> operand when it is Some: for Iterator::min/max over a map of the analysed
    function the payload is one of its results (induction hypothesis)."""
    fn = ctx.fn
    m = re.match(r"^(?:move |copy )?(_\d+)$", operand.strip())
    if m:
        defs = fn.build_defs().get(m.group(1)) or []
        for (_b, _i, rhs) in defs:
            mm = re.match(r"^CALL (.*)\((.*)\)$", rhs)
            if mm and re.search(r"as Iterator>::(min|max)$", MF.short_ty(mm.group(1))) :
                # element type: does the iterator map through the analysed function?
                if re.search(r"\b%s\b" % re.escape(ctx.self_name), mm.group(1)) or _iter_maps_self(ctx, mm.group(2)):
                    return ctx.fresh("min/max over results of %s (induction hypothesis)" % ctx.self_name, lo=(ctx.ih_ge or 0))
    return ctx.fresh("Option payload")


def _iter_maps_self(ctx, args):
    fn = ctx.fn
    for a in re.findall(r"_\d+", args):
        for (_b, _i, rhs) in fn.build_defs().get(a, []):
            if re.search(r"\b%s\b" % re.escape(ctx.self_name), rhs):
                return True
    return False


def _solve(ctx, goal, z3_bin=None):
    z3_bin = z3_bin or MF.Z3_BIN
    smt = ["(set-logic ALL)", "(set-option :produce-models true)"] + ctx.decls + ["(assert %s)" % a for a in ctx.asserts] + ["(assert %s)" % goal, "(check-sat)", "(get-model)"]
    t0 = time.time()
    try:
        p = subprocess.run([z3_bin, "-in", "-T:30"], input="\n".join(smt) + "\n", stdout=subprocess.PIPE, stderr=subprocess.STDOUT, text=True, timeout=40)
        out = p.stdout
    except Exception as e:  # noqa: BLE001
        MF.STATS.queries += 1
        return "unknown", str(e), time.time() - t0
    MF.STATS.queries += 1
    MF.STATS.seconds += time.time() - t0
    first = out.strip().splitlines()[0] if out.strip() else ""
    if first == "unsat":
        return "unsat", None, time.time() - t0
    if first == "sat":
        model = dict(re.findall(r"\(define-fun (v\d+) \(\) Int\s+(\(- \d+\)|\d+)\)", out))
        return "sat", model, time.time() - t0
    return "unknown", out[:200], time.time() - t0


def check_function(funcs, name, returns_ge=None):
    """Obligations: (1) every divisor / remainder operand is non-zero; (2) if returns_ge is given, every
    returned value is >= returns_ge, assuming the same for recursive calls (induction)."""
    rn, fn = MF.find_fn(funcs, name)
    if fn is None:
        return [MF.Result("inconclusive", "function %s not found in MIR" % name)]
    self_name = rn.split("::")[-1]
    out = []
    # (1) divisions
    divs = []
    for idx in sorted(fn.blocks):
        b = fn.blocks[idx]
        if b.cleanup:
            continue
        for s_ in b.stmts:
            m = re.match(r"^(_\d+) = (Div|Rem)\((.*)\);$", s_)
            if m:
                ops = M._split_top(m.group(3))
                divs.append((idx, s_, ops[1]))
    for idx, s_, divisor in divs:
        ctx = Ctx(fn, self_name, ih_ge=returns_ge)
        t = term(ctx, divisor)
        res, model, dt = _solve(ctx, "(= %s 0)" % t)
        smp = {"fn": rn, "kind": "NONZERO_DIVISOR", "stmt": s_[:80], "divisor_term": t[:120], "slice": ctx.notes[:6]}
        if res == "unsat":
            out.append(MF.Result("holds", "unsat: divisor of `%s` is never zero" % s_[:60], queries=1, seconds=dt, sample=smp))
        elif res == "sat":
            expl = ", ".join("%s=%s [%s]" % (k, v, next((n_ for n_ in ctx.notes if n_.startswith(k + " ")), "")[len(k) + 3:][:60]) for k, v in sorted(model.items())[:4])
            out.append(MF.Result("violated", "division by zero is possible at bb%d `%s`: %s" % (idx, s_[:70], expl), queries=1, seconds=dt, sample=smp))
        else:
            out.append(MF.Result("inconclusive", str(model), queries=1, seconds=dt, sample=smp))
    if not divs:
        out.append(MF.Result("holds", "no division in %s" % rn, sample={"fn": rn, "kind": "NONZERO_DIVISOR", "divisions": 0}))
    # (2) returns
    if returns_ge is not None:
        sites = []
        for idx in sorted(fn.blocks):
            b = fn.blocks[idx]
            if b.cleanup:
                continue
            for s_ in b.stmts:
                m = re.match(r"^_0 = (.*);$", s_)
                if m:
                    sites.append((idx, m.group(1)))
            if b.kind == "call" and b.dest == "_0":
                sites.append((idx, "CALL %s(%s)" % (b.callee, b.args)))
        for idx, rhs in sites:
            ctx = Ctx(fn, self_name, ih_ge=returns_ge)
            t = rhs_term(ctx, rhs, 0, ())
            res, model, dt = _solve(ctx, "(< %s %d)" % (t, returns_ge))
            smp = {"fn": rn, "kind": "RETURNS_GE", "site": "bb%d" % idx, "term": t[:120]}
            if res == "unsat":
                out.append(MF.Result("holds", "unsat: value returned at bb%d is >= %d" % (idx, returns_ge), queries=1, seconds=dt, sample=smp))
            elif res == "sat":
                out.append(MF.Result("violated", "value returned at bb%d (`%s`) can be < %d: %s" % (idx, MF.short_ty(rhs)[:60], returns_ge, model), queries=1, seconds=dt, sample=smp))
            else:
                out.append(MF.Result("inconclusive", str(model), queries=1, seconds=dt, sample=smp))
        if not sites:
            out.append(MF.Result("inconclusive", "no return site found in %s" % rn))
    return out
