"""Engine M ("mirflow"): path obligations over MIR control-flow graphs decided by z3.

Every obligation is a satisfiability question: "is there a path of the function's CFG (callees
opaque, data abstracted except for explicitly assumed switch arms) that ...".  unsat => the
obligation holds on every path; sat => the model is a concrete block path (printed with the MIR
line of each block).  See DESIGN.md 1.2.
"""
import os
import re
import subprocess
import time

from . import mir as M

Z3_BIN = os.environ.get("VERIF_Z3", "/usr/bin/z3")
Z3_NEW = "z3-new"
Z3_TIMEOUT_S = 60
BOTH_SOLVERS = False


# ---------------------------------------------------------------------------------------------
# Origins: where does a switch discriminant come from?
# ---------------------------------------------------------------------------------------------
# Calls whose result origin also shows where the (first two) arguments come from: the obligation needs to know WHICH
# host / WHICH bucket was examined, not only that the function was called.
ARG_CALLEES = re.compile(r"(^|::)(is_loopback_host|try_consume|refund_one|Mutex::<TokenBucket>::lock)$")

def origin(fn, local, depth=0, seen=None):
    """Readable provenance expression for a local (flow-insensitive, via unique defs)."""
    defs = fn.build_defs()
    local = local.strip()
    if seen is None:
        seen = set()
    m = re.match(r"^(?:move |copy )?(_\d+)$", local)
    if not m:
        return place_str(fn, local, depth, seen)
    l = m.group(1)
    if l in seen or depth > 10:
        return l
    seen = seen | {l}
    ds = defs.get(l)
    if not ds:
        if l in fn.locals:
            return "arg(%s: %s)" % (l, short_ty(fn.locals[l]))
        return l
    outs = []
    for (_b, _i, rhs) in ds[:4]:
        o1 = rhs_origin(fn, rhs, depth + 1, seen)
        if SITE_TAGS and _i == "term" and o1.startswith("call "):
            o1 += site_tag(fn, _b)
        outs.append(o1)
    outs = sorted(set(outs))
    return outs[0] if len(outs) == 1 else "alt(" + " | ".join(outs) + ")"


SITE_TAGS = False


def site_tag(fn, bidx):
    """Call-site tag (used by mirdec for variable identity): block + source names of the argument locals."""
    blk = fn.blocks.get(bidx)
    names = []
    if blk is not None:
        for a_ in M._split_top(blk.args):
            mm = re.match(r"^(?:move |copy )?(_\d+)$", a_.strip())
            names.append(_debug_name(fn, mm.group(1)) if mm else "")
    return "\u27e8bb%d%s\u27e9" % (bidx, (":" + ";".join(names)) if any(names) else "")  # no commas: the tag sits inside comma-separated operand lists


def _debug_name(fn, loc, depth=0):
    """Source-level name of a local, following `x = copy/move y` and `x = &y` one or two steps."""
    for k, v in fn.debug.items():
        if v.strip() == loc:
            return k
    if depth < 5:
        ds = fn.build_defs().get(loc) or []
        if len(ds) == 1:
            mm = re.match(r"^(?:copy |move |&mut |&)?\(?\*?(_\d+)\)?$", ds[0][2].strip())
            if mm:
                return _debug_name(fn, mm.group(1), depth + 1)
            mm = re.match(r"^CALL <.* as (?:std::ops::)?(?:Deref|DerefMut|AsRef<.*>|AsMut<.*>|Borrow<.*>)>::\w+\((?:move |copy )?(_\d+)\)$", ds[0][2].strip())
            if mm:
                return _debug_name(fn, mm.group(1), depth + 1)
    return ""


def short_ty(t):
    t = re.sub(r"parking_lot::lock_api::", "", t)
    t = re.sub(r"parking_lot::(RawRwLock|RawMutex), ", "", t)
    t = re.sub(r"std::(option|result|string|collections|sync|vec)::", "", t)
    t = re.sub(r"ringbuf::Arc", "Arc", t)
    return t


def place_str(fn, p, depth, seen):
    p = p.strip()
    p = re.sub(r"^(move |copy )", "", p)
    # ((*_1).8: T)  /  (*_5)  /  (_7.0: T) / ((_7 as Some).0: T)
    def rep(m):
        return origin(fn, m.group(0), depth + 1, seen) if False else m.group(0)
    base = re.findall(r"_\d+", p)
    s = short_ty(p)
    if base:
        b = base[0]
        bo = None
        if b != "_0":
            ds = fn.build_defs().get(b)
            if ds and depth < 8 and b not in seen:
                bo = origin(fn, b, depth + 1, seen)
            elif b in fn.locals and not ds:
                bo = "arg(%s: %s)" % (b, short_ty(fn.locals[b]))
        if bo and bo != b:
            s = s.replace(b, "{" + bo + "}", 1)
    return s


def rhs_origin(fn, rhs, depth, seen):
    rhs = rhs.strip()
    m = re.match(r"^CALL (.*)\((.*)\)$", rhs)
    if m:
        callee, args = m.group(1), m.group(2)
        c = short_ty(callee)
        if "as Try>::branch" in callee or "as Deref>::deref" in callee or "as DerefMut>::deref_mut" in callee \
                or "::as_ref" in callee or "::as_mut" in callee or "::as_deref" in callee or "as Borrow" in callee:
            a0 = M._split_top(args)[0] if args else ""
            tag = "try" if "Try>::branch" in callee else "deref" if "eref" in callee else "asref"
            return "%s(%s)" % (tag, origin(fn, a0, depth + 1, seen))
        if re.search(r"<(String|str|&str|&String) as PartialEq", c) or re.search(r"::(starts_with|ends_with)::", c):
            parts = M._split_top(args)
            return "call %s(%s)" % (c, ", ".join(origin(fn, p_, depth + 1, seen) for p_ in parts[:2]))
        if ARG_CALLEES.search(re.sub(r"::<.*>$", "", c)):
            return "call %s(%s)" % (c, ", ".join(origin(fn, p_, depth + 1, seen) for p_ in M._split_top(args)[:2]))
        if c.startswith("anyhow::__private::not::"):
            a0 = M._split_top(args)[0] if args else ""
            return "ensure_not(%s)" % origin(fn, a0, depth + 1, seen)
        return "call %s" % c
    m = re.match(r"^discriminant\((.*)\)$", rhs)
    if m:
        return "discr(%s)" % origin(fn, m.group(1), depth + 1, seen)
    m = re.match(r"^(move|copy) (.*)$", rhs)
    if m:
        return origin(fn, m.group(2), depth + 1, seen)
    m = re.match(r"^&(?:mut |raw const |raw mut )?(.*)$", rhs)
    if m:
        return "&" + origin(fn, m.group(1), depth + 1, seen)
    m = re.match(r"^Not\((.*)\)$", rhs)
    if m:
        return "not(%s)" % origin(fn, m.group(1), depth + 1, seen)
    m = re.match(r"^(Eq|Ne|Lt|Le|Gt|Ge|Add|Sub|Mul|BitAnd|BitOr|AddWithOverflow|SubWithOverflow)\((.*)\)$", rhs)
    if m:
        parts = M._split_top(m.group(2))
        return "%s(%s)" % (m.group(1), ", ".join(origin(fn, p, depth + 1, seen) for p in parts))
    m = re.match(r"^const (.*)$", rhs)
    if m:
        return "const " + m.group(1)[:40]
    return short_ty(rhs)[:160]


# ---------------------------------------------------------------------------------------------
# Event graph
# ---------------------------------------------------------------------------------------------
class Ev:
    """Event matcher: regex over the text of a statement / terminator of a non-cleanup block.
    kind: 'call' (callee+args text), 'stmt', 'drop', 'any'.  `also`: optional predicate
    (fn, block, text) -> bool."""

    def __init__(self, regex, kind="call", also=None, name=None):
        self.regex = re.compile(regex)
        self.kind = kind
        self.also = also
        self.name = name or regex

    def match_block(self, fn, b):
        """Yield positions in block b that match: ints for stmts, 'term' for the terminator."""
        out = []
        if self.kind in ("stmt", "any"):
            for i, s in enumerate(b.stmts):
                if self.regex.search(short_ty(s)) and (self.also is None or self.also(fn, b, s)):
                    out.append(i)
        if self.kind in ("call", "any") and b.kind == "call":
            txt = short_ty("%s = %s(%s)" % (b.dest, b.callee, b.args))
            if self.regex.search(txt) and (self.also is None or self.also(fn, b, txt)):
                out.append("term")
        if self.kind in ("drop", "any") and b.kind == "drop":
            if self.regex.search("drop(%s)" % b.args) and (self.also is None or self.also(fn, b, b.term)):
                out.append("term")
        return out


class Arm:
    """Selects switch edges: switches whose discriminant origin matches `origin_re`; `arms` is the
    set of arm labels ('0','1','otherwise',...) that are *selected*."""

    def __init__(self, origin_re, arms, name=None, nth=None):
        self.origin_re = re.compile(origin_re)
        self.arms = set(arms) if not isinstance(arms, str) else {arms}
        self.name = name or "%s=>%s" % (origin_re, sorted(self.arms))
        self.nth = nth  # pick the n-th matching switch in block order (0-based); None = all
        # a label written "!v" selects every arm of the switch except the one labelled v (so `Ok` of a two-variant
        # Result is "!1" whether the compiler emitted [0: ok, 1: err] or [1: err, otherwise: ok])
        self.excl = {a[1:] for a in self.arms if a.startswith("!")}

    def selects(self, lab):
        if self.excl:
            return lab not in self.excl
        return lab in self.arms

    def switches(self, fn):
        out = []
        for idx in sorted(fn.blocks):
            b = fn.blocks[idx]
            if b.cleanup or b.kind != "switch":
                continue
            o = origin(fn, b.switch_local)
            if self.origin_re.search(o):
                out.append(b)
        if self.nth is not None:
            out = out[self.nth:self.nth + 1]
        return out

    def target_blocks(self, fn):
        return [t for b in self.switches(fn) for (lab, t) in b.succs if self.selects(lab)]


class Graph:
    """Event-level graph of one function for one obligation."""

    def __init__(self, fn, matchers):
        self.fn = fn
        self.nodes = []  # node id -> (block idx, tag) tag: 'in' | ('ev', pos) | 'out'
        self.edges = []  # (src, dst, label, src block idx)
        self.ev_nodes = {}  # matcher name -> [node ids]
        self.block_in = {}
        self.block_out = {}
        self.entry = None
        self._build(matchers)

    def _new(self, info):
        self.nodes.append(info)
        return len(self.nodes) - 1

    def _build(self, matchers):
        fn = self.fn
        for mt in matchers:
            self.ev_nodes.setdefault(mt.name, [])
        for idx in sorted(fn.blocks):
            b = fn.blocks[idx]
            if b.cleanup:
                continue
            hits = {}
            for mt in matchers:
                for pos in mt.match_block(fn, b):
                    hits.setdefault(pos, []).append(mt.name)
            order = sorted([p for p in hits if p != "term"]) + (["term"] if "term" in hits else [])
            first = self._new((idx, "in"))
            self.block_in[idx] = first
            prev = first
            for pos in order:
                n = self._new((idx, ("ev", pos)))
                for name in hits[pos]:
                    self.ev_nodes[name].append(n)
                self.edges.append((prev, n, "seq", idx))
                prev = n
            self.block_out[idx] = prev
        # coroutine bodies (async fn / async block): bb0 dispatches on the saved state.  Rebuild the source-level
        # CFG: keep only the "unresumed" arm (state 0) at the dispatch and link every suspend point (a block
        # that stores state k >= 3 and returns) to the dispatch target of state k.
        resume_target = {}
        b0 = fn.blocks.get(0)
        self.coroutine = False
        if b0 is not None and b0.kind == "switch" and re.search(r"async (block|fn body)|\{coroutine", origin(fn, b0.switch_local or "")):
            self.coroutine = True
            resume_target = {lab: t for lab, t in b0.succs if lab.isdigit() and int(lab) >= 3}
        for idx, b in fn.blocks.items():
            if b.cleanup:
                continue
            if self.coroutine and idx == 0:
                for lab, tgt in b.succs:
                    if lab == "0" and tgt in self.block_in:
                        self.edges.append((self.block_out[idx], self.block_in[tgt], lab, idx))
                continue
            if self.coroutine and b.kind == "return":
                for s_ in b.stmts:
                    m = re.match(r"^discriminant\(.*\) = (\d+);$", s_)
                    if m and m.group(1) in resume_target and resume_target[m.group(1)] in self.block_in:
                        self.edges.append((self.block_out[idx], self.block_in[resume_target[m.group(1)]], "resume", idx))
            for lab, tgt in b.succs:
                if tgt in self.block_in:
                    # jump threading for `matches!` / `&&` / `||` lowering: a block that sets a flag to a
                    # constant and falls into a statement-free switch on that flag goes straight to the arm
                    # the constant selects (the other arm is infeasible on this edge).
                    t2 = self._thread(b, tgt) if b.kind != "switch" else None
                    if t2 is not None and t2 in self.block_in:
                        self.edges.append((self.block_out[idx], self.block_in[t2], "flow", idx))
                    else:
                        self.edges.append((self.block_out[idx], self.block_in[tgt], lab if b.kind == "switch" else "flow", idx))
        self.entry = self.block_in[0]

    def _thread(self, b, tgt):
        j = self.fn.blocks.get(tgt)
        if j is None or j.cleanup or j.kind != "switch" or j.stmts:
            return None
        m = re.match(r"^(?:move |copy )?(_\d+)$", (j.switch_local or "").strip())
        if not m:
            return None
        loc = m.group(1)
        val = None
        for s_ in b.stmts:
            mm = re.match(r"^%s = const (true|false);$" % re.escape(loc), s_)
            if mm:
                val = mm.group(1)
            elif s_.startswith(loc + " = "):
                val = None
        if val is None:
            return None
        want = "0" if val == "false" else None
        for lab, t in j.succs:
            if val == "false" and lab == "0":
                return t
        if val == "true":
            for lab, t in j.succs:
                if lab == "otherwise" or lab == "1":
                    return t
        return None

    def return_nodes(self):
        out = []
        for i, b in self.fn.blocks.items():
            if b.cleanup or b.kind != "return":
                continue
            if getattr(self, "coroutine", False) and any(re.match(r"^discriminant\(.*\) = ([3-9]|\d\d+);$", s_) for s_ in b.stmts):
                continue
            out.append(self.block_out[i])
        return out

    def describe(self, n):
        idx, tag = self.nodes[n]
        b = self.fn.blocks[idx]
        if tag == "in":
            return "bb%d" % idx
        if tag == "out":
            return "bb%d.out" % idx
        pos = tag[1]
        txt = b.term if pos == "term" else b.stmts[pos]
        return "bb%d: %s" % (idx, M_short(txt))


def M_short(t):
    t = re.sub(r"parking_lot::lock_api::", "", t)
    t = re.sub(r"parking_lot::(RawRwLock|RawMutex), ", "", t)
    t = re.sub(r" -> \[return: bb\d+, unwind: bb\d+\];?$", "", t)
    return t[:180]


# ---------------------------------------------------------------------------------------------
# SMT: reachability with avoidance, decided by z3
# ---------------------------------------------------------------------------------------------
class SolverStats:
    def __init__(self):
        self.queries = 0
        self.seconds = 0.0
        self.disagreements = 0


STATS = SolverStats()


def _forward(nn, edges, sources, avoid):
    succ = {}
    for (s, d, _l, _b) in edges:
        succ.setdefault(s, []).append(d)
    seen = set(x for x in sources if x not in avoid)
    stack = list(seen)
    while stack:
        x = stack.pop()
        for y in succ.get(x, ()):
            if y not in seen and y not in avoid:
                seen.add(y)
                stack.append(y)
    return seen


def reach_query(nn, edges, sources, targets, avoid=(), both_solvers=False):
    """Is there a path source ~> target through nodes not in `avoid` (edges already filtered)?
    Returns ('sat', path) | ('unsat', None) | ('unknown', msg).  Decided by z3; the graph is first
    restricted to the forward cone of the sources (a presolve that removes nodes no path can use;
    it never decides the query by itself: the empty-target case is still sent as `false`)."""
    avoid = set(avoid)
    targets = [t for t in targets if t not in avoid]
    cone = _forward(nn, edges, sources, avoid)
    # backward cone from the targets as well (keeps queries small)
    pred = {}
    for (s, d, _l, _b) in edges:
        pred.setdefault(d, []).append(s)
    back = set(t for t in targets if t in cone)
    stack = list(back)
    while stack:
        x = stack.pop()
        for y in pred.get(x, ()):
            if y in cone and y not in back:
                back.add(y)
                stack.append(y)
    keep = back
    ids = sorted(keep)
    lines = ["(set-logic ALL)", "(set-option :produce-models true)"]
    for i in ids:
        lines.append("(declare-const on%d Bool)" % i)
        lines.append("(declare-const r%d Int)" % i)
    srcs = [s for s in sources if s in keep]
    tg = [t for t in targets if t in keep]
    preds = {}
    for (s, d, _l, _b) in edges:
        if s in keep and d in keep:
            preds.setdefault(d, set()).add(s)
    for i in ids:
        if i in srcs:
            continue
        ps = sorted(preds.get(i, ()))
        if ps:
            lines.append("(assert (=> on%d (or %s)))" % (i, " ".join("(and on%d (< r%d r%d))" % (p, p, i) for p in ps)))
        else:
            lines.append("(assert (not on%d))" % i)
    if tg:
        lines.append("(assert (or %s))" % " ".join("on%d" % t for t in tg))
    else:
        lines.append("(assert false)")
    if not srcs:
        lines.append("(assert false)")
    lines.append("(check-sat)")
    lines.append("(get-model)")
    smt = "\n".join(lines) + "\n"
    res, model = _run_z3(Z3_BIN, smt)
    if both_solvers and res in ("sat", "unsat"):
        res2, _ = _run_z3(Z3_NEW, smt)
        if res2 in ("sat", "unsat") and res2 != res:
            STATS.disagreements += 1
            return "unknown", "solver disagreement: %s vs %s" % (res, res2)
    if res == "unsat":
        return "unsat", None
    if res != "sat":
        return "unknown", model
    on = set(int(x) for x in re.findall(r"\(define-fun on(\d+) \(\) Bool\s+true\)", model))
    rank = {int(a): int(b) for a, b in re.findall(r"\(define-fun r(\d+) \(\) Int\s+(\d+)\)", model)}
    for a, b in re.findall(r"\(define-fun r(\d+) \(\) Int\s+\(- (\d+)\)\)", model):
        rank[int(a)] = -int(b)
    # reconstruct one path backwards from a reached target
    t = [x for x in tg if x in on]
    path = []
    if t:
        cur = t[0]
        path = [cur]
        guard = 0
        while cur not in srcs and guard < 10000:
            guard += 1
            cands = [p for p in preds.get(cur, ()) if p in on and rank.get(p, 0) < rank.get(cur, 0)]
            if not cands:
                break
            cur = cands[0]
            path.append(cur)
        path.reverse()
    return "sat", path


def _run_z3(binary, smt):
    t0 = time.time()
    try:
        p = subprocess.run([binary, "-in", "-T:%d" % Z3_TIMEOUT_S], input=smt, stdout=subprocess.PIPE,
                           stderr=subprocess.STDOUT, text=True, timeout=Z3_TIMEOUT_S + 10)
        out = p.stdout
    except (subprocess.TimeoutExpired, OSError) as e:
        STATS.queries += 1
        STATS.seconds += time.time() - t0
        return "unknown", "solver failed: %r" % (e,)
    STATS.queries += 1
    STATS.seconds += time.time() - t0
    first = out.strip().splitlines()[0] if out.strip() else ""
    if "(error" in out.split("(model")[0] and first not in ("sat", "unsat"):
        return "unknown", out[:300]
    if first == "unsat":
        # (get-model) after unsat prints an error line; that one is expected
        return "unsat", None
    if first == "sat":
        return "sat", out
    return "unknown", out[:300]


# ---------------------------------------------------------------------------------------------
# Obligation primitives.  Each returns a dict(verdict, path, detail, queries, seconds, sample).
# ---------------------------------------------------------------------------------------------
class Result:
    def __init__(self, verdict, detail="", path=None, queries=0, seconds=0.0, sample=None):
        self.verdict = verdict  # holds | violated | inconclusive
        self.detail = detail
        self.path = path
        self.queries = queries
        self.seconds = seconds
        self.sample = sample


class PatternError(Exception):
    """An obligation's pattern did not match the current MIR: inconclusive, never pass/alarm."""


def _filtered_edges(g, assume=(), cut=()):
    """assume: [Arm] switches restricted to the selected arms.  cut: [Arm] selected arms removed."""
    fn = g.fn
    drop = set()  # (src block idx, label)
    for a in assume:
        sw = a.switches(fn)
        if not sw:
            raise PatternError("assumed arm %s matches no switch in %s" % (a.name, fn.name))
        for b in sw:
            for lab, _t in b.succs:
                if not a.selects(lab):
                    drop.add((b.idx, lab))
    for a in cut:
        if not a.switches(fn):
            raise PatternError("arm %s matches no switch in %s" % (a.name, fn.name))
        for b in a.switches(fn):
            for lab, _t in b.succs:
                if a.selects(lab):
                    drop.add((b.idx, lab))
    return [(s, d, l, bi) for (s, d, l, bi) in g.edges if (bi, l) not in drop]


def _path_text(g, path, limit=14):
    if not path:
        return ""
    shown = [g.describe(n) for n in path if g.nodes[n][1] != "in" or n == path[0] or n == path[-1]]
    # always keep switches' successors implicit; show compact list of blocks
    blocks = []
    for n in path:
        idx = g.nodes[n][0]
        if not blocks or blocks[-1] != idx:
            blocks.append(idx)
    evs = [g.describe(n) for n in path if g.nodes[n][1] not in ("in", "out")]
    return "blocks %s; events: %s" % ("->".join("bb%d" % b for b in blocks[:60]), " ;; ".join(evs[:limit]))


def find_fn(funcs, name, containing=None):
    """Resolve a function by (suffix of) its normalised name.  rustc trims unambiguous paths, so
    `persistence::sync_parent_dir` may be printed as `sync_parent_dir`.  If `containing` (an Ev)
    is given and the function's body was wrapped in a closure by #[instrument(ret)], the
    `{closure#0}` that contains the event is returned instead."""
    cands = []
    if name in funcs:
        cands = [name]
    else:
        tail = name.split("::")
        for k in range(1, len(tail)):
            suffix = "::".join(tail[k:])
            if suffix in funcs:
                cands = [suffix]
                break
        if not cands:
            cands = [n for n in funcs if n.endswith("::" + name)]
    if not cands:
        return None, None
    n = cands[0]
    if containing is not None:
        def has(fname):
            f = funcs.get(fname)
            return f is not None and any(containing.match_block(f, b) for b in f.blocks.values() if not b.cleanup)
        if not has(n):
            for suffix in ("::{closure#0}", "::{closure#0}::{closure#0}", "::{closure#1}"):
                if has(n + suffix):
                    return n + suffix, funcs[n + suffix]
    return n, funcs[n]


class FnCheck:
    """Obligations over one function."""

    def __init__(self, funcs, name, both_solvers=False, containing=None):
        rn, fn = find_fn(funcs, name, containing)
        self.name = rn or name
        self.fn = fn
        self.both = both_solvers

    def missing(self):
        return Result("inconclusive", "function %s not found in MIR" % self.name)

    def _q(self, g, edges, sources, targets, avoid=()):
        q0, s0 = STATS.queries, STATS.seconds
        res, payload = reach_query(len(g.nodes), edges, sources, targets, avoid, self.both or BOTH_SOLVERS)
        return res, payload, STATS.queries - q0, STATS.seconds - s0

    def _witness(self, g, edges, name, ev):
        nodes = g.ev_nodes[ev.name]
        if not nodes:
            return False, "pattern %s matched nothing in %s" % (name, self.name), 0, 0.0
        res, payload, q, s = self._q(g, edges, [g.entry], nodes)
        if res != "sat":
            return False, "witness: %s is not reachable (%s)" % (name, res), q, s
        return True, "", q, s

    # PRECEDES(A, B): no path entry ~> B avoiding A
    def precedes(self, A, B, assume=(), cut=()):
        if self.fn is None:
            return self.missing()
        g = Graph(self.fn, [A, B])
        edges = _filtered_edges(g, assume, cut)
        okA, msg, q1, s1 = self._witness(g, edges, "A=" + A.name, A)
        if not okA:
            return Result("inconclusive", msg, queries=q1, seconds=s1)
        okB, msg, q2, s2 = self._witness(g, edges, "B=" + B.name, B)
        if not okB:
            return Result("inconclusive", msg, queries=q1 + q2, seconds=s1 + s2)
        res, payload, q3, s3 = self._q(g, edges, [g.entry], g.ev_nodes[B.name], avoid=g.ev_nodes[A.name])
        q, s = q1 + q2 + q3, s1 + s2 + s3
        sample = {"fn": self.name, "kind": "PRECEDES", "A": A.name, "B": B.name, "cfg_blocks": len(self.fn.blocks), "event_nodes": len(g.nodes)}
        if res == "unsat":
            return Result("holds", "unsat: every path to B passes A", queries=q, seconds=s, sample=sample)
        if res == "sat":
            return Result("violated", "path reaches B without A: " + _path_text(g, payload), path=payload, queries=q, seconds=s, sample=sample)
        return Result("inconclusive", str(payload), queries=q, seconds=s, sample=sample)

    # FOLLOWS(A, B, exit): no path A ~> exit avoiding B
    def follows(self, A, B, exit="ok", assume=(), cut=(), exit_ev=None):
        """A may be an Ev or an Arm (then the sources are the target blocks of the selected arms)."""
        if self.fn is None:
            return self.missing()
        X = exit_ev or exit_event(exit)
        if isinstance(A, Arm):
            g = Graph(self.fn, [B, X])
            tb = A.target_blocks(self.fn)
            if not tb:
                return Result("inconclusive", "arm %s matches no switch in %s" % (A.name, self.name))
            g.ev_nodes[A.name] = [g.block_in[t] for t in tb if t in g.block_in]
        else:
            g = Graph(self.fn, [A, B, X])
        edges = _filtered_edges(g, assume, cut)
        okA, msg, q1, s1 = self._witness(g, edges, "A=" + A.name, A)
        if not okA:
            return Result("inconclusive", msg, queries=q1, seconds=s1)
        okB, msg, q2, s2 = self._witness(g, edges, "B=" + B.name, B)
        if not okB:
            return Result("inconclusive", msg, queries=q1 + q2, seconds=s1 + s2)
        targets = g.ev_nodes[X.name] if exit != "return" else g.return_nodes()
        if not targets:
            return Result("inconclusive", "no %s exit found in %s" % (exit, self.name), queries=q1 + q2, seconds=s1 + s2)
        res, payload, q3, s3 = self._q(g, edges, g.ev_nodes[A.name], targets, avoid=g.ev_nodes[B.name])
        q, s = q1 + q2 + q3, s1 + s2 + s3
        sample = {"fn": self.name, "kind": "FOLLOWS", "A": A.name, "B": B.name, "exit": exit, "cfg_blocks": len(self.fn.blocks)}
        if res == "unsat":
            return Result("holds", "unsat: every path from A to the %s exit passes B" % exit, queries=q, seconds=s, sample=sample)
        if res == "sat":
            return Result("violated", "path from A reaches the %s exit without B: %s" % (exit, _path_text(g, payload)), path=payload, queries=q, seconds=s, sample=sample)
        return Result("inconclusive", str(payload), queries=q, seconds=s, sample=sample)

    # NEVER(B) under assumptions: B unreachable (optionally from A)
    def never(self, B, assume=(), cut=(), frm=None, need_witness_without=True, strict=False):
        """`strict`: paths start just *after* an occurrence of `frm` (so that frm == B asks about the next occurrence)."""
        if self.fn is None:
            return self.missing()
        ms = [B] + ([frm] if (frm and not isinstance(frm, Arm)) else [])
        g = Graph(self.fn, ms)
        if isinstance(frm, Arm):
            g.ev_nodes[frm.name] = [g.block_in[t] for t in frm.target_blocks(self.fn) if t in g.block_in]
        edges_all = g.edges
        edges = _filtered_edges(g, assume, cut)
        q = 0
        s = 0.0
        if need_witness_without:
            ok, msg, q1, s1 = self._witness(g, edges_all, "B=" + B.name, B)
            q += q1
            s += s1
            if not ok:
                return Result("inconclusive", msg, queries=q, seconds=s)
        sources = g.ev_nodes[frm.name] if frm else [g.entry]
        if frm and not sources:
            return Result("inconclusive", "pattern A=%s matched nothing" % frm.name, queries=q, seconds=s)
        if frm and strict:
            src = set(sources)
            sources = sorted({d for (s_, d, _l, _bi) in edges if s_ in src})
        res, payload, q3, s3 = self._q(g, edges, sources, g.ev_nodes[B.name])
        q += q3
        s += s3
        sample = {"fn": self.name, "kind": "NEVER", "B": B.name, "assume": [a.name for a in assume], "cut": [a.name for a in cut], "cfg_blocks": len(self.fn.blocks)}
        if res == "unsat":
            return Result("holds", "unsat: B unreachable under the stated arm restrictions", queries=q, seconds=s, sample=sample)
        if res == "sat":
            return Result("violated", "B reachable: " + _path_text(g, payload), path=payload, queries=q, seconds=s, sample=sample)
        return Result("inconclusive", str(payload), queries=q, seconds=s, sample=sample)

    # ONLY_VIA(B, arm): B is reachable only through the selected arm(s) of the matching switch
    def only_via(self, B, arm, assume=(), frm=None, strict=False):
        if self.fn is None:
            return self.missing()
        sw = arm.switches(self.fn)
        if not sw:
            return Result("inconclusive", "no switch with origin /%s/ in %s" % (arm.origin_re.pattern, self.name))
        # cut = the selected arm removed: then B must be unreachable
        r = self.never(B, assume=assume, cut=[arm], frm=frm, strict=strict)
        if r.sample:
            r.sample["kind"] = "ONLY_VIA"
            r.sample["arm"] = arm.name
            r.sample["switches"] = ["bb%d" % b.idx for b in sw]
        if r.verdict == "violated":
            r.detail = "B reachable without taking arm %s: %s" % (arm.name, r.detail)
        return r

    # HELD(G, B): the guard acquired by G is live at every B
    def held(self, G, B, assume=(), cut=(), weaker=None, absent_is_violation=False):
        """`weaker`: an acquisition pattern of the same lock in a weaker mode (e.g. read instead of write).
        If G matches nothing but `weaker` does while B is present, the obligation is violated (the
        region is protected by the weaker mode only) rather than inconclusive."""
        if self.fn is None:
            return self.missing()
        fn = self.fn
        # guard locals and their aliases
        acq_blocks = [b for b in fn.blocks.values() if not b.cleanup and G.match_block(fn, b)]
        if not acq_blocks:
            if weaker is not None and self.count(weaker) > 0 and self.count(B) > 0:
                r = self.reachable(B, assume=assume, cut=cut)
                if r.verdict == "holds":
                    return Result("violated", "B is reachable but %s is never acquired in %s; only the weaker %s is" % (G.name, self.name, weaker.name),
                                  queries=r.queries, seconds=r.seconds, sample={"fn": self.name, "kind": "HELD", "guard": G.name, "B": B.name, "weaker_found": weaker.name})
            if absent_is_violation and self.count(B) > 0:
                # opt-in, for acquisition patterns that are robust (typed by the guard): B occurs and the guard is
                # never acquired anywhere in the function, so every occurrence of B is unprotected
                r = self.reachable(B, assume=assume, cut=cut)
                if r.verdict == "holds":
                    return Result("violated", "B (%s) is reachable and %s is never acquired in %s" % (B.name, G.name, self.name),
                                  queries=r.queries, seconds=r.seconds, sample={"fn": self.name, "kind": "HELD", "guard": G.name, "B": B.name, "guard_locals": []})
            return Result("inconclusive", "guard acquisition %s matched nothing in %s" % (G.name, self.name))
        guards = set()
        for b in acq_blocks:
            if b.dest and re.match(r"^_\d+$", b.dest):
                guards.add(b.dest)
        aliases = set(guards)
        changed = True
        while changed:
            changed = False
            for b in fn.blocks.values():
                if b.cleanup:
                    continue
                for s_ in b.stmts:
                    m = re.match(r"^(_\d+) = move (_\d+);$", s_)
                    if m and m.group(2) in aliases and m.group(1) not in aliases:
                        aliases.add(m.group(1))
                        changed = True

        def is_release(_fn, b, txt):
            if b.kind == "drop":
                return b.args.strip() in aliases
            if b.kind == "call":
                for a in re.findall(r"move (_\d+)", b.args):
                    if a in aliases:
                        return True
            return False

        REL = Ev(r".", kind="any", also=lambda f, b, t: (t == b.term or t.startswith("drop(") or True) and is_release(f, b, t) and (t is not None), name="release(" + G.name + ")")
        # restrict REL to terminators only
        REL = _TermEv(is_release, "release(" + G.name + ")")
        g = Graph(fn, [G, B, REL])
        edges = _filtered_edges(g, assume, cut)
        okB, msg, q1, s1 = self._witness(g, edges, "B=" + B.name, B)
        if not okB:
            return Result("inconclusive", msg, queries=q1, seconds=s1)
        acq = set(g.ev_nodes[G.name])
        rel = set(g.ev_nodes[REL.name]) - acq
        bn = set(g.ev_nodes[B.name])
        # product graph: node n with held bit h -> id 2n+h ; state is the bit *after* executing n
        N = len(g.nodes)
        pedges = []
        for (s_, d, l, bi) in edges:
            for h in (0, 1):
                if d in acq:
                    h2 = 1
                elif d in rel:
                    h2 = 0
                else:
                    h2 = h
                # B checked on arrival: violation if arriving at B with h == 0 (and B itself is not the acquisition)
                pedges.append((2 * s_ + h, 2 * d + h2, l, bi))
        # violation targets: B nodes entered with h=0 -> after-state h2 = 0 (B is neither acq nor rel) or B==rel
        targets = []
        for b_ in bn:
            if b_ in acq:
                continue
            targets.append(2 * b_ + 0)
        # a B node that is itself a release carries state 0 after executing even if held before: handle by
        # excluding release==B overlaps from the alias-release set (the use precedes the release).
        src = 2 * g.entry + (1 if g.entry in acq else 0)
        q0, s0 = STATS.queries, STATS.seconds
        res, payload = reach_query(2 * N, pedges, [src], targets, (), self.both or BOTH_SOLVERS)
        q, s = q1 + STATS.queries - q0, s1 + STATS.seconds - s0
        sample = {"fn": self.name, "kind": "HELD", "guard": G.name, "B": B.name, "guard_locals": sorted(guards), "aliases": sorted(aliases), "cfg_blocks": len(fn.blocks)}
        if res == "unsat":
            return Result("holds", "unsat: guard live at every occurrence of B (%d B sites, %d release sites)" % (len(bn), len(rel)), queries=q, seconds=s, sample=sample)
        if res == "sat":
            path = [p // 2 for p in payload]
            return Result("violated", "B reached with the guard not held: " + _path_text(g, path), path=path, queries=q, seconds=s, sample=sample)
        return Result("inconclusive", str(payload), queries=q, seconds=s, sample=sample)

    def reachable(self, B, assume=(), cut=()):
        """Witness-style query: B reachable (sat expected)."""
        if self.fn is None:
            return self.missing()
        g = Graph(self.fn, [B])
        edges = _filtered_edges(g, assume, cut)
        ok, msg, q, s = self._witness(g, edges, B.name, B)
        if not ok and g.ev_nodes[B.name]:
            # the pattern exists but no path reaches it under the stated arm restrictions (z3: unsat)
            return Result("violated", msg, queries=q, seconds=s, sample={"fn": self.name, "kind": "REACHABLE", "B": B.name})
        return Result("holds" if ok else "inconclusive", msg or "sat: reachable", queries=q, seconds=s,
                      sample={"fn": self.name, "kind": "REACHABLE", "B": B.name})

    def count(self, ev):
        if self.fn is None:
            return 0
        return sum(len(ev.match_block(self.fn, b)) for b in self.fn.blocks.values() if not b.cleanup)


class _TermEv(Ev):
    def __init__(self, pred, name):
        self.pred = pred
        self.name = name
        self.kind = "term"

    def match_block(self, fn, b):
        if b.kind in ("drop", "call") and self.pred(fn, b, b.term):
            return ["term"]
        return []


def exit_event(kind):
    if kind == "ok":
        return Ev(r"^_0 = (?:std::result::)?Result::<.*>::Ok\(|^_0 = const .*Result::<.*>::Ok|^_0 = Result::<[^;]*>::Ok", kind="stmt", name="exit:ok")
    if kind == "err":
        return Ev(r"^_0 = .*(Result::<.*>::Err\(|from_residual|::context::|anyhow::)", kind="any", name="exit:err")
    if kind == "true":
        return Ev(r"^_0 = const true", kind="stmt", name="exit:true")
    if kind == "false":
        return Ev(r"^_0 = const false", kind="stmt", name="exit:false")
    return Ev(r"^_0 = ", kind="any", name="exit:any")
