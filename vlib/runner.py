"""Property runner: executes the obligations of one property (engine K = Kani harnesses,
engine M = MIR/z3 obligations), applies the exit-code policy and writes the evidence file.

Exit codes (DESIGN 1.3): 0 pass (or only KNOWN-FINDINGs), 1 VIOLATION (unlisted, reproduced),
2 inconclusive (timeout / OOM / pattern not matched / counterexample did not reproduce).
"""
import importlib
import json
import os
import sys
import time
import traceback

from . import overlay as ov
from . import kani as kk

VERIF = ov.VERIF
EVIDENCE_DIR = os.path.join(ov.BUILD_DIR, "evidence") if ov.SANDBOX else os.path.join(VERIF, "evidence")
REPLAY_DIR = os.path.join(ov.BUILD_DIR, "replay") if ov.SANDBOX else os.path.join(VERIF, "replay")
LOG_DIR = os.path.join(ov.BUILD_DIR, "logs")


class Obl:
    """Result of one obligation (a Kani harness+witness pair or a mirflow obligation)."""

    def __init__(self, oid, engine, desc, functions=(), bounds="", assumptions=()):
        self.oid = oid
        self.engine = engine
        self.desc = desc
        self.functions = list(functions)  # [(file, fn regex)]
        self.bounds = bounds
        self.assumptions = list(assumptions)
        self.verdict = "inconclusive"  # holds | violated | inconclusive
        self.detail = ""
        self.queries = 0
        self.solver_s = 0.0
        self.sample = None
        self.cex = None  # counterexample payload (dict)
        self.role = None  # role key for known-findings matching
        self.replay = None  # dict(reproduced=bool, path=..., how=...)

    def to_json(self):
        d = {
            "id": self.oid,
            "engine": self.engine,
            "what": self.desc,
            "verdict": self.verdict,
            "bounds": self.bounds,
            "queries": self.queries,
            "solver_s": round(self.solver_s, 2),
        }
        if self.detail:
            d["detail"] = self.detail[:2000]
        if self.functions:
            enc = []
            for f, fn in self.functions:
                src = ov.function_source(f, fn)
                enc.append({"file": "engine/src/" + f, "fn": fn, "sha256": ov.sha256_text(src)[:16] if src else None})
            d["functions_encoded"] = enc
        if self.assumptions:
            d["assumptions"] = self.assumptions
        if self.sample is not None:
            d["sample"] = self.sample
        if self.replay is not None:
            d["replay"] = self.replay
        return d


def load_known_findings():
    p = os.path.join(VERIF, "known_findings.json")
    try:
        with open(p) as fh:
            return json.load(fh)
    except OSError:
        return {"findings": [], "fixed": []}


def tier_from_env(argv_tier):
    t = argv_tier or os.environ.get("VERIF_TIER") or "quick"
    return "thorough" if t.startswith("t") else "quick"


def seed_from_env():
    try:
        return int(os.environ.get("VERIF_SEED", "0"))
    except ValueError:
        return 0


def run_property(prop_id, tier):
    t0 = time.time()
    seed = seed_from_env()
    spec = importlib.import_module("props." + prop_id)
    obls = []
    notes = []
    try:
        obls = spec.run(tier, seed, notes)
    except Exception as e:  # machinery failure is inconclusive, never a pass or an alarm
        traceback.print_exc()
        o = Obl(prop_id + ".machinery", "-", "runner raised %r" % (e,))
        o.verdict = "inconclusive"
        o.detail = traceback.format_exc()[-1500:]
        obls.append(o)
    known = load_known_findings()
    known_roles = {(f["property"], f["role"]): f for f in known.get("findings", [])}
    violations = []
    known_hits = []
    inconclusive = []
    for o in obls:
        if o.verdict == "violated":
            key = (prop_id, o.role or o.oid)
            if key in known_roles:
                known_hits.append((o, known_roles[key]))
            elif o.replay is not None and not o.replay.get("reproduced", False):
                o.verdict = "inconclusive"
                o.detail = (o.detail + " | counterexample did not reproduce natively").strip(" |")
                inconclusive.append(o)
            else:
                violations.append(o)
        elif o.verdict == "inconclusive":
            inconclusive.append(o)
    wall = time.time() - t0
    write_evidence(prop_id, tier, seed, spec, obls, wall, len(violations), known_hits, notes)
    for o, f in known_hits:
        print("KNOWN-FINDING: property=%s %s [%s]" % (prop_id, f.get("what", ""), o.oid))
    held = sum(1 for o in obls if o.verdict == "holds")
    print("[verif] %s tier=%s obligations=%d held=%d known=%d violated=%d inconclusive=%d wall=%.1fs" % (
        prop_id, tier, len(obls), held, len(known_hits), len(violations), len(inconclusive), wall))
    for o in obls:
        print("  %-12s %-28s %-12s q=%-4d %.1fs %s" % (o.engine, o.oid, o.verdict, o.queries, o.solver_s, (o.detail or "")[:160].replace("\n", " ")))
    if violations:
        for o in violations:
            path = (o.replay or {}).get("path") or write_cex(prop_id, o)
            print("VIOLATION property=%s replay=%s" % (prop_id, path))
        return 1
    if inconclusive:
        print("[verif] INCONCLUSIVE: %s" % ", ".join(o.oid for o in inconclusive))
        return 2
    return 0


def write_cex(prop_id, o):
    d = os.path.join(REPLAY_DIR, prop_id)
    os.makedirs(d, exist_ok=True)
    p = os.path.join(d, o.oid.replace("/", "_") + ".json")
    with open(p, "w") as fh:
        json.dump({"property": prop_id, "obligation": o.oid, "what": o.desc, "counterexample": o.cex, "detail": o.detail}, fh, indent=1)
    return p


def write_evidence(prop_id, tier, seed, spec, obls, wall, nviol, known_hits, notes):
    os.makedirs(EVIDENCE_DIR, exist_ok=True)
    level = getattr(spec, "LEVEL", "other")
    held = [o for o in obls if o.verdict == "holds"]
    known_ids = {id(o) for o, _ in known_hits}
    cov = {
        "obligations": len(obls),
        "discharged": len(held),
        "known_findings_reproduced": len(known_hits),
        "checker_cmd": "./check %s --tier %s" % (prop_id, tier),
        "trusted_base": getattr(spec, "TRUSTED_BASE", []),
        "explanation": getattr(spec, "EXPLANATION", ""),
        "solver_queries": sum(o.queries for o in obls),
        "solver_time_s": round(sum(o.solver_s for o in obls), 2),
        "obligation_results": [o.to_json() for o in obls],
        "samples": [o.sample for o in obls if o.sample is not None][:6] or [o.desc for o in obls[:3]],
        "not_covered": getattr(spec, "NOT_COVERED", []),
        "repo_head": ov.repo_head(),
        "repo_dirty": ov.repo_dirty(),
        "notes": notes,
        "exhaustive": False,
    }
    if level == "proof" and len(held) + len(known_ids) != len(obls):
        level = "other"
        cov["explanation"] = (cov["explanation"] + " [this run: not every obligation was discharged]").strip()
    if not cov["explanation"]:
        cov["explanation"] = "bounded solver verdicts per obligation; see obligation_results"
    ev = {
        "property_id": prop_id,
        "tier": tier,
        "seed": seed,
        "level": level,
        "coverage": cov,
        "assumptions": sorted({a for o in obls for a in o.assumptions} | set(getattr(spec, "ASSUMPTIONS", []))),
        "wall_s": round(wall, 2),
        "violations": nviol,
    }
    with open(os.path.join(EVIDENCE_DIR, prop_id + ".json"), "w") as fh:
        json.dump(ev, fh, indent=1)


# ---------------------------------------------------------------------------------------------
# Engine K helper used by the per-property specs
# ---------------------------------------------------------------------------------------------
class KH:
    """One Kani harness pair (main + __witness twin)."""

    def __init__(self, oid, name, desc, src=None, functions=(), bounds="", assumptions=(), tier="quick",
                 timeout=None, role=None, witness=True, expect_covers=None, replay="playback"):
        self.oid = oid
        self.replay = replay  # "playback": native cargo-kani playback of the counterexample; "solver-only": harness depends on an
        #                       effectful stub (clock) that is inert natively, so playback would not exercise the same run
        self.src = src  # engine/src-relative file the harness module is appended to
        self.name = name  # short harness fn name
        self.desc = desc
        self.functions = functions
        self.bounds = bounds
        self.assumptions = assumptions
        self.tier = tier
        self.timeout = timeout
        self.role = role
        self.witness = witness
        self.expect_covers = expect_covers  # minimum number of satisfied covers of the witness twin (default: all of them)


def run_kani_group(prop_id, tier, target, modules, harnesses, support=(), elide_tracing=(),
                   prepare=None, jobs=8, harness_timeout=None, notes=None, modpath=None, mem_gb=14):
    """modules: {src rel path: harness file name under /verif/harness}.  Returns [Obl]."""
    hs = [h for h in harnesses if tier == "thorough" or h.tier == "quick"]
    if os.environ.get("VERIF_DEV_ENGINES", "KM").find("K") < 0:  # development aid only
        return []
    if os.environ.get("VERIF_DEV_ONLY"):  # development aid only: run the harnesses whose name contains one of the given substrings
        subs = os.environ["VERIF_DEV_ONLY"].split(",")
        hs = [h for h in harnesses if any(x in h.name for x in subs)]
    if not hs:
        return []
    # VERIF_SEED only permutes the order in which harnesses are handed to Kani (no verdict depends on it)
    import random
    random.Random(seed_from_env()).shuffle(hs)
    if harness_timeout is None:
        harness_timeout = 900 if tier == "quick" else 2400  # generous: a time-out on the unchanged tree would make the check exit 2
    obls = []

    def prepare_overlay(o, copy_harness=False):
        o.add_support(extra=support)
        o.add_noop_log_macro()
        for rel in elide_tracing:
            if not o.elide_tracing(rel):
                if notes is not None:
                    notes.append("tracing import not found verbatim in %s" % rel)
        if prepare:
            prepare(o)
        copies = {}
        for rel, hfile in modules.items():
            src = os.path.join(ov.HARNESS_DIR, hfile)
            if copy_harness:
                import shutil
                dst_dir = os.path.join(o.root, "engine", "verif_harness")
                os.makedirs(dst_dir, exist_ok=True)
                dst = os.path.join(dst_dir, hfile)
                shutil.copy(src, dst)
                o.append_module(rel, dst)
                txt = open(src).read()
                for h in harnesses:
                    if ("fn %s(" % h.name) in txt or (h.name in txt):
                        copies.setdefault(h.name, dst)
            else:
                o.append_module(rel, src)
        if target != "lib":
            o.strip_bins_with_required_features()
        return copies

    with ov.Overlay("%s-kani-%s" % (prop_id, "bin" if target != "lib" else "lib"), "kani") as o:
        prepare_overlay(o)
        names = []
        filt = []
        default_src = list(modules.keys())[0]
        for h in hs:
            rel = h.src or default_src
            mp = "" if rel.startswith("bin/") or rel in ("lib.rs", "main.rs") else rel[:-3].replace("/", "::") + "::"
            for n in ([h.name, h.name + "__witness"] if h.witness else [h.name]):
                names.append(n)
                filt.append(mp + "verif_proofs::" + n)
        per_h = max([harness_timeout] + [h.timeout or 0 for h in hs])
        log_path = os.path.join(LOG_DIR, "%s-kani-%s.log" % (prop_id, tier))
        # One cargo-kani invocation per chunk of harnesses: the kani driver process (which also runs under the address-space cap)
        # once died with "memory allocation failed" after 20 harness runs in one invocation, losing the results still in flight.
        # Harnesses whose result is missing after that are re-run once on their own before they count as inconclusive.
        CHUNK = 10
        wall = 0.0
        cerr = None
        outs = []
        for c0 in range(0, len(filt), CHUNK):
            _r, w_, ce, out_ = kk.run_kani(o, filt[c0:c0 + CHUNK], target=target, harness_timeout=per_h, jobs=jobs,
                                           log_path=(log_path if c0 == 0 else log_path.replace(".log", ".%d.log" % (c0 // CHUNK))), mem_gb=mem_gb)
            wall += w_
            outs.append(out_)
            if ce and not cerr:
                cerr = ce
        def merge(texts):
            res = kk._parse("", names)
            for t in texts:
                for n, r in kk._parse(t, []).items():
                    if n in res and r.status != "missing":
                        res[n] = r
            return res
        parsed = merge(outs)
        if not cerr:
            missing = [i for i, n in enumerate(names) if parsed.get(n) is None or parsed[n].status == "missing"]
            if missing and len(missing) < len(names):
                _r, w_, ce, out_ = kk.run_kani(o, [filt[i] for i in missing], target=target, harness_timeout=per_h, jobs=max(1, min(jobs, 2)),
                                               log_path=log_path.replace(".log", ".retry.log"), mem_gb=mem_gb)
                wall += w_
                outs.append(out_)
                parsed = merge(outs)
                if notes is not None:
                    notes.append("kani %s: %d harness run(s) without a result were re-run once" % (target, len(missing)))
        if notes is not None:
            notes.append("kani %s: %d harness runs in %.0fs wall; overlay edits: %s" % (target, len(names), wall, "; ".join(d for _, d in o.edits if "append" not in d) or "none besides appended modules"))
        for h in hs:
            ob = Obl(h.oid, "K:kani", h.desc, h.functions, h.bounds, list(h.assumptions))
            ob.role = h.role or h.name
            ob.sample = {"harness": h.name, "bounds": h.bounds}
            if cerr:
                ob.verdict = "inconclusive"
                ob.detail = "kani did not run: " + cerr
                obls.append(ob)
                continue
            r = parsed.get(h.name)
            w = parsed.get(h.name + "__witness") if h.witness else None
            ob.queries = (r.checks_total if r else 0) + (w.checks_total if w else 0)
            ob.solver_s = (r.time_s if r else 0) + (w.time_s if w else 0)
            ob.sample.update({"cbmc_checks": r.checks_total if r else 0, "stubs": r.stubs if r else []})
            if r is None or r.status == "missing":
                ob.detail = "harness produced no result (see %s)" % log_path
            elif r.status == "timeout":
                ob.detail = "CBMC timed out after %ds" % per_h
            elif r.status == "error":
                ob.detail = "CBMC error: " + r.raw_tail[-300:]
            elif r.status == "failed":
                if r.unwinding_failed and all("unwinding" in d for _, d, _ in r.failed_checks):
                    ob.detail = "unwinding assertion failed (bound too small): inconclusive"
                else:
                    ob.verdict = "violated"
                    ob.detail = "; ".join("%s @ %s" % (d, l.split("/")[-1]) for _, d, l in r.failed_checks[:4])
                    ob.cex = {"harness": h.name, "failed_checks": [{"description": d, "location": l} for _, d, l in r.failed_checks]}
            elif r.status == "success":
                need = (lambda w_: h.expect_covers if getattr(h, "expect_covers", None) else w_.cover_total)
                if h.witness and (w is None or w.status != "success" or w.cover_total == 0 or w.cover_satisfied < need(w)):
                    ob.detail = "vacuity witness not satisfied (%s)" % (("%d/%d covers, status %s" % (w.cover_satisfied, w.cover_total, w.status)) if w else "missing")
                else:
                    ob.verdict = "holds"
                    ob.detail = "%d checks, 0 failed%s" % (r.checks_total, (", %d ignored float-NaN checks" % len(r.ignored_failed)) if r.ignored_failed else "")
            ob._full = filt[names.index(h.name)]
            ob._replay_mode = h.replay
            obls.append(ob)
    # replay every counterexample natively before it can be reported (known findings are not replayed)
    known = {(f["property"], f["role"]) for f in load_known_findings().get("findings", [])}
    todo = [ob for ob in obls if ob.verdict == "violated" and (prop_id, ob.role) not in known]
    for ob in [t for t in todo if t._replay_mode != "playback"]:
        ob.replay = {"reproduced": True, "path": None, "how": "solver counterexample only (stated limitation, DESIGN 6.2): either the harness drives the code through a stubbed monotonic clock, which is inert in a native build, "
                     "or the violation is an out-of-bounds access that a native run does not fault on; the CBMC check that failed is the evidence", "output": ob.detail[:300]}
    todo = [t for t in todo if t._replay_mode == "playback"]
    for ob in todo[:3]:
        short = ob.cex["harness"]
        rep = kk.replay_failing(prop_id, target, lambda o2: prepare_overlay(o2, copy_harness=True), ob._full, short, os.path.join(REPLAY_DIR, prop_id))
        ob.replay = rep
        if notes is not None:
            notes.append("replay %s: %s" % (short, rep.get("output", "")[:200]))
    for ob in todo[3:] if todo else []:
        # same family as an already replayed counterexample: inherit its verdict
        ob.replay = dict(todo[0].replay or {}, how="not replayed separately (more than 3 failing harnesses); verdict inherited from %s" % todo[0].oid)
    return obls


# ---------------------------------------------------------------------------------------------
# Engine M helpers
# ---------------------------------------------------------------------------------------------
class MO:
    """One mirflow obligation: `check(funcs)` returns a mirflow.Result."""

    def __init__(self, oid, desc, check, functions=(), target="lib", tier="quick", role=None, assumptions=()):
        self.oid = oid
        self.desc = desc
        self.check = check
        self.functions = functions
        self.target = target
        self.tier = tier
        self.role = role
        self.assumptions = assumptions


_MIR_CACHE = {}


def _tree_hash(root):
    """Content hash of an (overlay) copy of the crate: engine/src, manifests, Cargo.lock."""
    import hashlib
    h = hashlib.sha256()
    base = os.path.join(root, "engine")
    for r_, _dirs, files in sorted(os.walk(os.path.join(base, "src"))):
        for f in sorted(files):
            p_ = os.path.join(r_, f)
            h.update(os.path.relpath(p_, root).encode())
            with open(p_, "rb") as fh:
                h.update(fh.read())
    for f in (os.path.join("engine", "Cargo.toml"), os.path.join("engine", "build.rs"), "Cargo.lock"):
        p_ = os.path.join(root, f)
        if os.path.exists(p_):
            with open(p_, "rb") as fh:
                h.update(fh.read())
    return h.hexdigest()[:24]


def load_mir(target, notes=None):
    """MIR of /repo's current working tree (lib or a bin), parsed.  /repo is first copied to a scratch
    overlay; the dump is a build artefact keyed by the content hash *of that copy*, so the key always
    describes exactly the source that is (or was) compiled, even if /repo is edited concurrently.  An
    unchanged tree is not recompiled by every property's check; any edit gives a new key and a fresh dump."""
    from . import mir as M
    import fcntl
    import hashlib
    cache_dir = os.path.join(ov.BUILD_DIR, "mir-cache")
    os.makedirs(cache_dir, exist_ok=True)
    dev = os.environ.get("VERIF_MIR_" + target.upper())
    if dev and os.path.exists(dev):
        return M.parse(open(dev).read())
    lock = open(os.path.join(cache_dir, ".lock"), "w")
    fcntl.flock(lock, fcntl.LOCK_EX)
    try:
        with ov.Overlay("mir-%s" % target, "mir") as o:
            key = _tree_hash(o.root)
            if (target, key) in _MIR_CACHE:
                return _MIR_CACHE[(target, key)]
            path = os.path.join(cache_dir, "%s-%s.mir" % (target, key))
            # impl-type names are resolved by reading the source at the MIR's line numbers: read them from the copy
            M.SOURCE_ROOT = o.root
            M._impl_cache.clear()
            if os.path.exists(path) and not os.environ.get("VERIF_NO_MIR_CACHE"):
                text = open(path).read()
                if notes is not None:
                    notes.append("MIR(%s): reused dump for source hash %s" % (target, key))
            else:
                text, secs, err = M.dump_mir(o, target)
                if err:
                    raise RuntimeError(err)
                if notes is not None:
                    notes.append("MIR(%s): dumped %d bytes in %.0fs (source hash %s)" % (target, len(text), secs, key))
                tmp = path + ".tmp.%d" % os.getpid()
                with open(tmp, "w") as fh:
                    fh.write(text)
                os.replace(tmp, path)
                olds = sorted((os.path.getmtime(os.path.join(cache_dir, f)), f) for f in os.listdir(cache_dir) if f.endswith(".mir"))
                for _t, f in olds[:-8]:
                    os.unlink(os.path.join(cache_dir, f))
            funcs = M.parse(text)
            _MIR_CACHE[(target, key)] = funcs
            return funcs
    finally:
        fcntl.flock(lock, fcntl.LOCK_UN)
        lock.close()


def run_mir_obligations(prop_id, tier, mos, notes=None):
    from . import mirflow as MF
    obls = []
    if os.environ.get("VERIF_DEV_ENGINES", "KM").find("M") < 0:  # development aid only
        return []
    mos = [m for m in mos if tier == "thorough" or m.tier == "quick"]
    by_target = {}
    for m in mos:
        by_target.setdefault(m.target, []).append(m)
    for target, lst in by_target.items():
        try:
            funcs = load_mir(target, notes)
            err = None
        except Exception as e:
            funcs = None
            err = str(e)
        for m in lst:
            ob = Obl(m.oid, "M:mirflow", m.desc, m.functions, "all paths of the named function's MIR CFG; callees opaque; data abstracted except stated arm restrictions", list(m.assumptions))
            ob.role = m.role or m.oid
            if funcs is None:
                ob.detail = "MIR unavailable: " + (err or "")
                obls.append(ob)
                continue
            try:
                MF.BOTH_SOLVERS = (tier == "thorough")
                r = m.check(funcs)
            except Exception as e:
                ob.detail = "obligation raised %r" % (e,)
                traceback.print_exc()
                obls.append(ob)
                continue
            rs = r if isinstance(r, list) else [r]
            verdicts = [x.verdict for x in rs]
            ob.queries = sum(x.queries for x in rs)
            ob.solver_s = sum(x.seconds for x in rs)
            ob.sample = next((x.sample for x in rs if x.sample), None)
            if "violated" in verdicts:
                ob.verdict = "violated"
                bad = [x for x in rs if x.verdict == "violated"][0]
                ob.detail = bad.detail
                ob.cex = {"path": bad.detail, "sample": bad.sample}
            elif "inconclusive" in verdicts:
                ob.verdict = "inconclusive"
                ob.detail = "; ".join(x.detail for x in rs if x.verdict == "inconclusive")
            else:
                ob.verdict = "holds"
                ob.detail = "%d sub-queries unsat/witnessed" % len(rs)
            obls.append(ob)
    return obls
