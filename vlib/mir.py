"""MIR dump (rustc -Zunpretty=mir) -> per-function CFG.  Engine M front end (DESIGN 1.2)."""
import os
import re
import subprocess
import time

from . import overlay as ov

MIR_TARGET = os.path.join(ov.BUILD_DIR, "mir-target")

_FN_RE = re.compile(r"^fn (.+?)\((.*)\) -> (.+?) \{$")
_FN_RE_NOARGS = re.compile(r"^fn (.+?)\((.*)\) \{$")
_BB_RE = re.compile(r"^    bb(\d+)( \(cleanup\))?: \{$")
_IMPL_AT = re.compile(r"<impl at ([^:>]+):(\d+):(\d+): (\d+):(\d+)>")


class Block:
    __slots__ = ("idx", "cleanup", "stmts", "term", "succs", "kind", "callee", "dest", "args", "switch_local", "line")

    def __init__(self, idx, cleanup):
        self.idx = idx
        self.cleanup = cleanup
        self.stmts = []
        self.term = ""
        self.succs = []  # [(label, target idx)]  label: 'return','goto','success', switch value str, 'otherwise','drop'
        self.kind = ""  # call | drop | switch | goto | return | unreachable | resume | assert | other
        self.callee = None
        self.dest = None
        self.args = ""
        self.switch_local = None
        self.line = 0


class Func:
    def __init__(self, raw_name, name, sig, line):
        self.raw_name = raw_name
        self.name = name
        self.sig = sig
        self.line = line
        self.blocks = {}
        self.locals = {}  # _n -> type
        self.debug = {}  # source name -> place
        self.defs = None

    # -- def map: local -> [(block idx, stmt index or 'term', text)] --------------------------
    def build_defs(self):
        if self.defs is not None:
            return self.defs
        defs = {}
        for b in self.blocks.values():
            if b.cleanup:
                continue
            for i, s in enumerate(b.stmts):
                m = re.match(r"^(_\d+) = (.*);$", s)
                if m:
                    defs.setdefault(m.group(1), []).append((b.idx, i, m.group(2)))
            if b.kind == "call" and b.dest and re.match(r"^_\d+$", b.dest):
                defs.setdefault(b.dest, []).append((b.idx, "term", "CALL " + (b.callee or "") + "(" + b.args + ")"))
        self.defs = defs
        return defs


def _split_top(s, sep=","):
    out, depth, cur = [], 0, []
    i = 0
    while i < len(s):
        c = s[i]
        if c in "([{<":
            # '<' is ambiguous with comparison/->; treat as bracket only in type-ish contexts
            depth += 1 if c != "<" or True else 0
        elif c in ")]}>":
            if c == ">" and i > 0 and s[i - 1] in "-=":
                pass
            else:
                depth -= 1
        if c == sep and depth == 0:
            out.append("".join(cur).strip())
            cur = []
        else:
            cur.append(c)
        i += 1
    if cur:
        out.append("".join(cur).strip())
    return out


_impl_cache = {}
SOURCE_ROOT = None  # set by runner.load_mir to the overlay copy the MIR was dumped from


def _impl_type(path, line):
    """Resolve '<impl at file:line>' to the implementing type name by reading the source line."""
    key = (path, line)
    if key in _impl_cache:
        return _impl_cache[key]
    name = None
    for root in ([SOURCE_ROOT] if SOURCE_ROOT else []) + [ov.REPO, os.path.dirname(ov.REPO)]:
        p = os.path.join(root, path)
        if os.path.exists(p):
            try:
                with open(p) as fh:
                    lines = fh.readlines()
                txt = " ".join(l.strip() for l in lines[line - 1: line + 3])
                m = re.match(r"^(?:unsafe )?impl(?:<[^>]*>)?\s+(?:(.+?)\s+for\s+)?([A-Za-z_][\w:]*)", txt)
                if m:
                    ty = m.group(2).split("::")[-1]
                    tr = m.group(1)
                    if tr:
                        tr = re.sub(r"<.*", "", tr).split("::")[-1]
                        name = "<%s as %s>" % (ty, tr)
                    else:
                        name = ty
            except OSError:
                pass
            break
    _impl_cache[key] = name
    return name


def normalise_name(raw):
    def rep(m):
        t = _impl_type(m.group(1), int(m.group(2)))
        return t or m.group(0)
    return _IMPL_AT.sub(rep, raw)


PROMOTED_STR = {}  # (normalised owner fn name, promoted index) -> string literal, for `&&str` promoteds (filled by parse)


def _parse_promoted_strs(text):
    for m in re.finditer(r'^const (.+?)::promoted\[(\d+)\]: &&str = \{\n(?:.*\n)*?\}', text, re.M):
        lit = re.search(r'_\d+ = const "((?:[^"\\]|\\.)*)";', m.group(0))
        if lit:
            PROMOTED_STR[(normalise_name(m.group(1)), int(m.group(2)))] = lit.group(1)


def parse(text):
    """Parse a MIR dump into {normalised fn name: Func}.  Names that collide get '#n' suffixes."""
    _parse_promoted_strs(text)
    funcs = {}
    cur = None
    blk = None
    pending = ""
    for ln, line in enumerate(text.splitlines(), 1):
        if cur is None:
            if line.startswith("fn "):
                m = _FN_RE.match(line) or _FN_RE_NOARGS.match(line)
                if m:
                    raw = m.group(1)
                    name = normalise_name(raw)
                    cur = Func(raw, name, line, ln)
                    for am in re.finditer(r"(_\d+): ([^,]+(?:<[^>]*>)?[^,]*)", m.group(2)):
                        cur.locals[am.group(1)] = am.group(2).strip()
            continue
        if line == "}":
            k = cur.name
            n = 1
            while k in funcs:
                n += 1
                k = "%s#%d" % (cur.name, n)
            funcs[k] = cur
            cur = None
            blk = None
            continue
        if blk is None:
            m = _BB_RE.match(line)
            if m:
                blk = Block(int(m.group(1)), bool(m.group(2)))
                blk.line = ln
                pending = ""
                continue
            s = line.strip()
            m = re.match(r"^let (?:mut )?(_\d+): (.*);$", s)
            if m:
                cur.locals[m.group(1)] = m.group(2)
                continue
            m = re.match(r"^debug (\S+) => (.*);$", s)
            if m:
                cur.debug.setdefault(m.group(1), m.group(2))
            continue
        # inside a block
        if line == "    }":
            if blk.stmts:
                blk.term = blk.stmts.pop()
            _classify(blk)
            cur.blocks[blk.idx] = blk
            blk = None
            continue
        s = line.strip()
        if not s:
            continue
        pending = (pending + " " + s).strip() if pending else s
        if pending.endswith(";"):
            blk.stmts.append(pending)
            pending = ""
    return funcs


_TARGETS = re.compile(r"-> (\[.*\]|bb\d+|unwind [a-z]+)?;$")


def _classify(b):
    t = b.term
    if t.startswith("return"):
        b.kind = "return"
        return
    if t.startswith("unreachable"):
        b.kind = "unreachable"
        return
    if t.startswith("resume") or t.startswith("terminate") or t.startswith("abort"):
        b.kind = "resume"
        return
    m = re.match(r"^goto -> bb(\d+);$", t)
    if m:
        b.kind = "goto"
        b.succs = [("goto", int(m.group(1)))]
        return
    m = re.match(r"^switchInt\((?:move |copy )?(.+?)\) -> \[(.*)\];$", t)
    if m:
        b.kind = "switch"
        b.switch_local = m.group(1)
        for part in m.group(2).split(", "):
            v, tgt = part.rsplit(": ", 1)
            b.succs.append((v.strip(), int(tgt[2:])))
        return
    m = re.match(r"^drop\((.+?)\) -> (.*);$", t)
    if m:
        b.kind = "drop"
        b.args = m.group(1)
        b.succs = _succ_list(m.group(2))
        return
    m = re.match(r"^assert\((.*)\) -> (.*);$", t)
    if m:
        b.kind = "assert"
        b.args = m.group(1)
        b.succs = _succ_list(m.group(2))
        return
    m = re.match(r"^(?:falseEdge|falseUnwind|yield|coroutine_drop)", t)
    if m:
        b.kind = "other"
        b.succs = [("goto", int(x)) for x in re.findall(r"bb(\d+)", t)]
        return
    # call: DEST = CALLEE(ARGS) -> [return: bbN, unwind ...];   or -> unwind continue; / diverging
    m = re.match(r"^(.+?) = (.+)\) -> (.*);$", t)
    if m:
        b.kind = "call"
        b.dest = m.group(1).strip()
        callee_args = m.group(2)
        # split callee and args at the last top-level '('
        depth = 0
        pos = None
        for i in range(len(callee_args) - 1, -1, -1):
            c = callee_args[i]
            if c == ")":
                depth += 1
            elif c == "(":
                if depth == 0:
                    pos = i
                    break
                depth -= 1
        if pos is None:
            b.callee = callee_args
            b.args = ""
        else:
            b.callee = callee_args[:pos]
            b.args = callee_args[pos + 1:]
        b.succs = _succ_list(m.group(3))
        return
    m = re.match(r"^(.+?) = (.+)\) -> unwind", t)
    b.kind = "other"
    b.succs = [("goto", int(x)) for x in re.findall(r"return: bb(\d+)", t)]


def _succ_list(s):
    s = s.strip()
    out = []
    if s.startswith("["):
        for part in s[1:-1].split(", "):
            if ": " in part:
                lab, tgt = part.split(": ", 1)
                if tgt.startswith("bb") and lab in ("return", "success"):
                    out.append((lab, int(tgt[2:])))
    elif s.startswith("bb"):
        out.append(("return", int(s[2:])))
    return out


# ---------------------------------------------------------------------------------------------
def dump_mir(overlay, target="lib", timeout=1500):
    """Run the nightly compiler on the overlay and return (mir text, seconds, error)."""
    os.makedirs(MIR_TARGET, exist_ok=True)
    cmd = ["cargo", "+nightly", "rustc", "--offline", "--target-dir", MIR_TARGET]
    cmd += ["--lib"] if target == "lib" else ["--bin", target]
    cmd += ["--", "-Zunpretty=mir", "-C", "debug-assertions=off"]
    env = dict(os.environ)
    env["CARGO_NET_OFFLINE"] = "true"
    env.pop("RUSTUP_TOOLCHAIN", None)
    t0 = time.time()
    try:
        p = subprocess.run(cmd, cwd=os.path.join(overlay.root, "engine"), env=env, stdout=subprocess.PIPE,
                           stderr=subprocess.PIPE, text=True, timeout=timeout, errors="replace")
    except subprocess.TimeoutExpired:
        return "", time.time() - t0, "MIR dump timed out"
    if p.returncode != 0 or len(p.stdout) < 1000:
        err = [l for l in p.stderr.splitlines() if l.startswith("error")]
        return "", time.time() - t0, "MIR dump failed: " + (err[0] if err else p.stderr[-300:])
    return p.stdout, time.time() - t0, None
