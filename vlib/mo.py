"""Small DSL for mirflow obligations used by props/*.py."""
from .mirflow import Ev, Arm, FnCheck, PatternError, Result, origin  # noqa: F401
from .runner import MO  # noqa: F401


def call(rx, name=None):
    return Ev(rx, kind="call", name=name)


def stmt(rx, name=None):
    return Ev(rx, kind="stmt", name=name)


def anyev(rx, name=None):
    return Ev(rx, kind="any", name=name)


def precedes(fn, A, B, **kw):
    return lambda F: FnCheck(F, fn, containing=B).precedes(A, B, **kw)


def follows(fn, A, B, exit="ok", **kw):
    return lambda F: FnCheck(F, fn, containing=(B if isinstance(A, Arm) else A)).follows(A, B, exit=exit, **kw)


def never(fn, B, **kw):
    return lambda F: FnCheck(F, fn, containing=B).never(B, **kw)


def only_via(fn, B, arm, **kw):
    return lambda F: FnCheck(F, fn, containing=B).only_via(B, arm, **kw)


def only_via_call(fn, B, A, ok_arm, why=""):
    """B is reached only through the Ok arm of the call A.  If A is never called in the function while B is reachable,
    the guard is gone altogether: *violated* (not inconclusive) — used where A is named by its full path, so that a
    missing match means a missing call rather than a renamed pattern."""
    def run(F):
        fc = FnCheck(F, fn, containing=B)
        if fc.fn is None:
            return fc.missing()
        if fc.count(A) == 0 and fc.count(B) > 0:
            r = fc.reachable(B)
            if r.verdict == "holds":
                return Result("violated", "%s reaches %s and never calls %s%s" % (fc.name.split("::")[-1], B.name, A.name, (": " + why) if why else ""),
                              queries=r.queries, seconds=r.seconds, sample={"fn": fc.name, "kind": "ONLY_VIA", "B": B.name, "missing_call": A.name})
            return r
        return fc.only_via(B, ok_arm)
    return run


def held(fn, G, B, **kw):
    return lambda F: FnCheck(F, fn, containing=B).held(G, B, **kw)


def allof(*checks):
    def run(F):
        out = []
        for c in checks:
            try:
                r = c(F)
            except PatternError as e:
                # one sub-check whose pattern no longer matches must not hide what the other sub-checks decide
                r = Result("inconclusive", "pattern: %s" % e)
            out.extend(r if isinstance(r, list) else [r])
        return out
    return run


def field_index(relpath, struct, field):
    """Declaration index of `field` in `struct` (MIR places name fields by index), read from the tree the MIR was
    dumped from.  None when the struct or the field is not found (callers turn that into 'inconclusive')."""
    import os
    import re
    from . import mir as _M
    from . import overlay as _ov
    for root in ([_M.SOURCE_ROOT] if _M.SOURCE_ROOT else []) + [_ov.REPO]:
        path = os.path.join(root, "engine", "src", relpath)
        if not os.path.exists(path):
            continue
        txt = open(path).read()
        m = re.search(r"\bstruct %s\b[^{;]*\{" % re.escape(struct), txt)
        if not m:
            return None
        depth, i, body = 1, m.end(), []
        while i < len(txt) and depth:
            c = txt[i]
            depth += c == "{"
            depth -= c == "}"
            body.append(c)
            i += 1
        body = re.sub(r"//[^\n]*", "", "".join(body))
        body = re.sub(r"#\[[^\]]*\]", "", body)
        names = re.findall(r"(?:^|[,{\n])\s*(?:pub(?:\([^)]*\))?\s+)?([a-z_][A-Za-z0-9_]*)\s*:", body)
        return names.index(field) if field in names else None
    return None


# Frequently used patterns -----------------------------------------------------------------
PERSIST_SOME = Arm(r"^discr\(\(\(\*\{arg\(_1: &HnswBackend\)\}\)\.\d+: Option<hnsw_backend::PersistenceState>\)\)$", {"1"}, name="self.persistence is Some")
PERSIST_NONE = Arm(r"^discr\(\(\(\*\{arg\(_1: &HnswBackend\)\}\)\.\d+: Option<hnsw_backend::PersistenceState>\)\)$", {"0"}, name="self.persistence is None")
WAL_APPEND = call(r"= WalWriter::append(_batch)?\(", name="WalWriter::append|append_batch")
DOCSTORE_WRITE = call(r"= RwLock::<DocumentStore>::write\(", name="doc_store.write()")
DOCSTORE_READ = call(r"= RwLock::<DocumentStore>::read\(", name="doc_store.read()")
INDEX_WRITE = call(r"= RwLock::<HnswVectorIndex>::write\(", name="index.write()")
METAIDX_WRITE = call(r"= RwLock::<(hnsw_backend::)?MetadataInvertedIndex>::write\(", name="metadata_index.write()")
SEQ_FETCH_ADD = call(r"= Atomic::<u64>::fetch_add\(", name="next_wal_seq.fetch_add")


def decides(fn, start, outcomes, atoms, spec, **kw):
    """DECIDES obligation (vlib/mirdec.py): the condition under which `fn` reaches an outcome, extracted from its MIR,
    compared with `spec` (SMT over the atoms) by z3.  spec values: formula (iff) | ("=>", f) | ("<=", f)."""
    from . import mirdec as _MD
    return lambda F: _MD.decides(F, fn, start, outcomes, atoms, spec, **kw)


def sorted_before_dedup(fn_name_re):
    """`Vec::dedup` only removes *consecutive* duplicates: in every function whose name matches, each dedup call must be
    preceded on every path by a sort of the same vector (receiver compared by source-level name)."""
    import re as _re
    from . import mir as _M
    from .mirflow import short_ty as _st, _debug_name, Graph as _G

    def run(F):
        out = []
        for name, fn in F.items():
            if not _re.search(fn_name_re, name):
                continue
            ded = [b for b in fn.blocks.values() if not b.cleanup and b.kind == "call" and _re.search(r"Vec::<.*>::dedup(_by|_by_key)?$", _re.sub(r"::<[^>]*>$", "", _st(b.callee or "")))]
            if not ded:
                continue
            fc = FnCheck(F, name)
            for db in ded:
                recv = _debug_name(fn, (_re.findall(r"_\d+", db.args) or [""])[0])
                D = Ev(r"::dedup", kind="call", also=lambda f, b, t, idx=db.idx: b.idx == idx, name="%s.dedup()" % (recv or "vec"))
                S = Ev(r"::sort(_unstable)?(_by|_by_key)?(::<.*>)?\(", kind="call",
                       also=lambda f, b, t, recv=recv: (not recv) or _debug_name(f, (_re.findall(r"_\d+", b.args) or [""])[0]) == recv, name="%s.sort*()" % (recv or "vec"))
                if fc.count(S) == 0:
                    r = fc.reachable(D)
                    out.append(Result("violated" if r.verdict == "holds" else "inconclusive",
                                      "%s calls %s on a vector that is never sorted in this function: Vec::dedup removes only consecutive duplicates, so repeated ids that are not adjacent survive (counts are inflated, entries processed twice)" % (name.split("::")[-1], D.name),
                                      queries=r.queries, seconds=r.seconds, sample={"fn": name, "kind": "PRECEDES", "A": S.name, "B": D.name}))
                else:
                    out.append(fc.precedes(S, D))
        if not out:
            out.append(Result("inconclusive", "no dedup call found in functions matching /%s/" % fn_name_re))
        return out
    return run


def variant_index(relpath, enum, variant):
    """Declaration index of `variant` in `enum` (= its MIR discriminant unless explicit discriminants are given; callers
    use it only for field-less enums without explicit values).  None when not found."""
    import os
    import re
    from . import mir as _M
    from . import overlay as _ov
    for root in ([_M.SOURCE_ROOT] if _M.SOURCE_ROOT else []) + [_ov.REPO]:
        path = os.path.join(root, "engine", "src", relpath)
        if not os.path.exists(path):
            continue
        txt = open(path).read()
        m = re.search(r"\benum %s\b[^{;]*\{" % re.escape(enum), txt)
        if not m:
            return None
        depth, i, body = 1, m.end(), []
        while i < len(txt) and depth:
            c = txt[i]
            depth += c == "{"
            depth -= c == "}"
            body.append(c)
            i += 1
        body = re.sub(r"//[^\n]*", "", "".join(body))
        body = re.sub(r"#\[[^\]]*\]", "", body)
        if "=" in body:
            # explicit discriminants: handled for the plain `Name = <integer literal>` form only
            vals = dict((m_.group(1), int(m_.group(2))) for m_ in re.finditer(r"\b([A-Z]\w*)\s*=\s*(\d+)\s*(?:,|\}|$)", body))
            items = [x.strip() for x in body.rstrip().rstrip("}").split(",") if x.strip()]
            if len(vals) != len(items):
                return None
            return vals.get(variant)
        names = [x.strip().split("(")[0].split("{")[0].strip() for x in body.rstrip("}").split(",")]
        names = [n for n in names if re.match(r"^[A-Z]\w*$", n)]
        return names.index(variant) if variant in names else None
    return None
