"""Engine K driver: run Kani harnesses on an overlay and parse the per-harness verdicts."""
import os
import re
import subprocess
import time

from . import overlay as ov

KANI_TARGET = os.path.join(ov.BUILD_DIR, "kani-target")

# Checks Kani emits that are not the property (DESIGN 1.1 "Check filter"): pure asserts without
# assume, so ignoring them hides nothing downstream.
IGNORED_DESCRIPTIONS = (
    "NaN on ",
    "simd_mul would overflow",
    "simd_add would overflow",
    "simd_sub would overflow",
    "arithmetic overflow on floating-point",
)


class HarnessResult:
    def __init__(self, name):
        self.name = name
        self.status = "missing"  # success | failed | timeout | error | missing
        self.checks_total = 0
        self.checks_failed = 0
        self.unreachable = 0
        self.failed_checks = []  # (check id, description, location)
        self.ignored_failed = []
        self.unsupported = []
        self.cover_total = 0
        self.cover_satisfied = 0
        self.time_s = 0.0
        self.stubs = []
        self.raw_tail = ""
        self.unwinding_failed = False

    def to_json(self):
        return {
            "harness": self.name,
            "status": self.status,
            "cbmc_checks": self.checks_total,
            "failed": [{"check": c, "description": d, "location": l} for c, d, l in self.failed_checks],
            "ignored_failed": len(self.ignored_failed),
            "cover": "%d/%d" % (self.cover_satisfied, self.cover_total),
            "solver_time_s": round(self.time_s, 2),
            "stubs": self.stubs,
        }


def _parse(text, wanted):
    """Parse `cargo kani` (regular or terse, possibly -j threaded) output into HarnessResults."""
    results = {}
    # Normalise "Thread N: " prefixes and remember which thread is on which harness.
    cur_by_thread = {}
    blocks = {}  # harness -> list of lines
    thread_re = re.compile(r"^Thread (\d+): ?(.*)$")
    cur_thread = "main"
    for line in text.splitlines():
        m = thread_re.match(line)
        if m:
            cur_thread = m.group(1)
            line = m.group(2)
        m2 = re.match(r"^Checking harness (\S+?)\.\.\.$", line)
        if m2:
            cur_by_thread[cur_thread] = m2.group(1)
            blocks.setdefault(m2.group(1), [])
            continue
        h = cur_by_thread.get(cur_thread)
        if h is not None:
            blocks[h].append(line)
    for full, lines in blocks.items():
        short = full.split("::")[-1]
        r = HarnessResult(short)
        body = "\n".join(lines)
        r.raw_tail = "\n".join(lines[-25:])
        r.stubs = re.findall(r"- Stub: (.*)", body)
        m = re.search(r"\*\* (\d+) of (\d+) failed(?: \((\d+) unreachable\))?", body)
        if m:
            r.checks_failed = int(m.group(1))
            r.checks_total = int(m.group(2))
            r.unreachable = int(m.group(3) or 0)
        m = re.search(r"\*\* (\d+) of (\d+) cover properties satisfied", body)
        if m:
            r.cover_satisfied = int(m.group(1))
            r.cover_total = int(m.group(2))
        m = re.search(r"Verification Time: ([0-9.]+)s", body)
        if m:
            r.time_s = float(m.group(1))
        # failed checks: both formats print "Failed Checks: <desc>\n File: ..."
        for fm in re.finditer(r"Failed Checks: (.*)\n\s*File: \"?([^\n\"]*)\"?, line (\d+)", body):
            desc = fm.group(1).strip()
            loc = "%s:%s" % (fm.group(2), fm.group(3))
            if "is not currently supported by Kani" in desc:
                r.unsupported.append((desc, loc))  # reachable unsupported construct: not a property verdict
            elif any(desc.startswith(p) or p in desc for p in IGNORED_DESCRIPTIONS):
                r.ignored_failed.append((desc, loc))
            else:
                r.failed_checks.append(("", desc, loc))
        if re.search(r"unwinding assertion", "\n".join(d for _, d, _ in r.failed_checks)):
            r.unwinding_failed = True
        if "CBMC timed out" in body:
            r.status = "timeout"
        elif "VERIFICATION:- SUCCESSFUL" in body:
            r.status = "success"
        elif "VERIFICATION:- FAILED" in body:
            if r.checks_total == 0 and not r.failed_checks:
                r.status = "error"  # CBMC crashed / OOM / unsupported construct
            elif r.failed_checks:
                r.status = "failed"
            elif r.unsupported:
                r.status = "error"  # only an unsupported construct was hit: inconclusive
            elif r.checks_failed and len(r.ignored_failed) >= r.checks_failed:
                r.status = "success"  # only ignored float-NaN style checks failed
            elif r.checks_failed == 0:
                r.status = "error"
            else:
                r.status = "failed"
        results[short] = r
    for w in wanted:
        results.setdefault(w, HarnessResult(w))
    return results


def run_kani(overlay, harnesses, target="lib", harness_timeout=120, jobs=8, total_timeout=None,
             mem_gb=14, log_path=None, extra_args=()):
    """Run the given harness names (exact short names) in one cargo-kani invocation."""
    os.makedirs(KANI_TARGET, exist_ok=True)
    cmd = ["cargo", "kani"]
    cmd += ["--lib"] if target == "lib" else ["--bin", target]
    cmd += ["-Z", "stubbing", "-Z", "unstable-options",
            "--harness-timeout", "%ds" % harness_timeout,
            "--target-dir", KANI_TARGET]
    if jobs and jobs > 1:
        cmd += ["-j", str(jobs), "--output-format", "terse"]
    else:
        cmd += ["--output-format", "terse"]
    cmd += ["--exact"]
    for h in harnesses:
        cmd += ["--harness", h]
    cmd += list(extra_args)
    env = dict(os.environ)
    env["CARGO_NET_OFFLINE"] = "true"
    env["VERIF_HARNESS_DIR"] = ov.HARNESS_DIR
    env.pop("RUSTUP_TOOLCHAIN", None)
    if total_timeout is None:
        # compile (<= 240 s) + harnesses in waves
        waves = (len(harnesses) + max(jobs, 1) - 1) // max(jobs, 1)
        total_timeout = 300 + waves * (harness_timeout + 15)
    # ulimit -v is per process: every CBMC (and the compiler) may use at most mem_gb of address space; a
    # CBMC that hits the limit reports an error, which the parser turns into "inconclusive".
    shell = "ulimit -v %d; exec %s" % (mem_gb * 1024 * 1024, " ".join(_q(c) for c in cmd))
    t0 = time.time()
    try:
        p = subprocess.run(["bash", "-c", shell], cwd=overlay.root, env=env, stdout=subprocess.PIPE,
                           stderr=subprocess.STDOUT, text=True, timeout=total_timeout, errors="replace")
        out = p.stdout
        rc = p.returncode
    except subprocess.TimeoutExpired as e:
        out = (e.stdout or b"")
        if isinstance(out, bytes):
            out = out.decode("utf-8", "replace")
        out += "\n[verif] total timeout after %ds\n" % total_timeout
        rc = -1
        _kill_stray_cbmc(overlay.root)
    wall = time.time() - t0
    # drop CBMC's unwinding chatter before storing
    out = "\n".join(l for l in out.splitlines() if not l.startswith(("aborting path", "Unwinding ", "Not unwinding")))
    if log_path:
        os.makedirs(os.path.dirname(log_path), exist_ok=True)
        with open(log_path, "w") as fh:
            fh.write("$ " + " ".join(cmd) + "\n" + out)
    compile_error = None
    if "Checking harness" not in out:
        m = re.search(r"^(error(\[E\d+\])?:.*)$", out, re.M)
        compile_error = m.group(1) if m else "no harness was run (rc=%s)" % rc
    results = _parse(out, [h.split("::")[-1] for h in harnesses])
    return results, wall, compile_error, out


def _q(s):
    import shlex
    return shlex.quote(s)


def _kill_stray_cbmc(root):
    try:
        out = subprocess.check_output(["ps", "-eo", "pid,args"], text=True)
    except Exception:
        return
    for line in out.splitlines():
        parts = line.strip().split(None, 1)
        if len(parts) == 2 and ("cbmc" in parts[1].split()[0]) and KANI_TARGET in parts[1]:
            try:
                os.kill(int(parts[0]), 9)
            except Exception:
                pass


# ---------------------------------------------------------------------------------------------
# Replay: Kani concrete playback of a failing harness, executed natively (DESIGN 1.4)
# ---------------------------------------------------------------------------------------------
def replay_failing(prop_id, target, build_overlay, full_name, short_name, replay_dir, timeout=900):
    """build_overlay(o, copy_harness=True) must prepare an overlay whose harness modules are
    *copies inside the overlay* (so the generated #[test] can be appended).  Returns
    dict(reproduced=True|False|None, path=..., how=..., output=...)."""
    os.makedirs(replay_dir, exist_ok=True)
    out_path = os.path.join(replay_dir, short_name + ".playback.rs")
    env = dict(os.environ)
    env["CARGO_NET_OFFLINE"] = "true"
    env["VERIF_HARNESS_DIR"] = ov.HARNESS_DIR
    env.pop("RUSTUP_TOOLCHAIN", None)
    with ov.Overlay("%s-replay" % prop_id, "kani") as o:
        harness_copy = build_overlay(o)
        cmd = ["cargo", "kani"] + (["--lib"] if target == "lib" else ["--bin", target]) + [
            "-Z", "stubbing", "-Z", "unstable-options", "-Z", "concrete-playback", "--concrete-playback=print",
            "--harness-timeout", "%ds" % timeout, "--target-dir", KANI_TARGET, "--output-format", "terse", "--exact", "--harness", full_name]
        try:
            p = subprocess.run(cmd, cwd=o.root, env=env, stdout=subprocess.PIPE, stderr=subprocess.STDOUT, text=True, timeout=timeout + 300, errors="replace")
        except subprocess.TimeoutExpired:
            return {"reproduced": None, "path": None, "how": "kani concrete playback", "output": "timed out generating the playback test"}
        tests = re.findall(r"```\n(.*?)```", p.stdout, re.S)
        tests = [t for t in tests if "#[test]" in t]
        if not tests:
            return {"reproduced": None, "path": None, "how": "kani concrete playback", "output": "no playback test generated"}
        code = "\n".join(tests)
        with open(out_path, "w") as fh:
            fh.write("// Kani concrete playback test(s) for %s (generated from the solver's counterexample)\n" % full_name + code)
        names = re.findall(r"fn (kani_concrete_playback_\w+)\(", code)
        # append the tests to the harness copy that owns the harness and run them natively
        owner = harness_copy.get(short_name)
        if not owner:
            return {"reproduced": None, "path": out_path, "how": "kani concrete playback", "output": "harness source not found in overlay"}
        with open(owner, "a") as fh:
            fh.write("\n" + code + "\n")
        cmd2 = ["cargo", "kani", "playback", "-Z", "concrete-playback"] + (["--lib"] if target == "lib" else ["--bin", target]) + ["--", names[0]]
        env2 = dict(env)
        env2["CARGO_TARGET_DIR"] = os.path.join(ov.BUILD_DIR, "playback-target")
        try:
            p2 = subprocess.run(cmd2, cwd=os.path.join(o.root, "engine"), env=env2, stdout=subprocess.PIPE, stderr=subprocess.STDOUT, text=True, timeout=2400, errors="replace")
        except subprocess.TimeoutExpired:
            return {"reproduced": None, "path": out_path, "how": "cargo kani playback", "output": "native playback timed out"}
        txt = p2.stdout
        m = re.search(r"test result: (\w+)\. (\d+) passed; (\d+) failed", txt)
        if not m:
            errs = [l for l in txt.splitlines() if l.startswith("error")]
            return {"reproduced": None, "path": out_path, "how": "cargo kani playback", "output": "playback did not run: " + (errs[0] if errs else txt[-300:])}
        failed = int(m.group(3))
        panic = re.search(r"panicked at [^\n]*\n([^\n]*)", txt)
        return {"reproduced": failed > 0, "path": out_path, "how": "cargo kani playback (native dev build) of the solver's assignment",
                "output": (panic.group(0)[:300] if panic else "test passed natively: the counterexample does not reproduce")}
