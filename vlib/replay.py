"""Native replay of counterexamples: builds scenario drivers against a pristine copy of /repo's
current tree (public API only) and runs them.  A violation is reported only if a driver prints
REPRODUCED (DESIGN 1.4)."""
import os
import shutil
import subprocess
import time

from . import overlay as ov

NATIVE_TARGET = os.path.join(ov.BUILD_DIR, "native-target")
DRIVER_SRC = os.path.join(ov.VERIF, "replay", "driver", "verif_replay.rs")

_built = {}


def build_driver(notes=None):
    """Build the replay driver example against the current tree.  Returns (binary path, error)."""
    key = "driver"
    if key in _built:
        return _built[key]
    os.makedirs(NATIVE_TARGET, exist_ok=True)
    t0 = time.time()
    o = ov.Overlay("native-replay", "native")
    o.__enter__()
    try:
        exdir = os.path.join(o.root, "engine", "examples")
        os.makedirs(exdir, exist_ok=True)
        shutil.copy(DRIVER_SRC, os.path.join(exdir, "verif_replay.rs"))
        env = dict(os.environ)
        env["CARGO_NET_OFFLINE"] = "true"
        env.pop("RUSTUP_TOOLCHAIN", None)
        p = subprocess.run(["cargo", "build", "--offline", "--example", "verif_replay", "--target-dir", NATIVE_TARGET, "-j", "12"],
                           cwd=os.path.join(o.root, "engine"), env=env, stdout=subprocess.PIPE, stderr=subprocess.STDOUT, text=True, timeout=2400)
        binp = os.path.join(NATIVE_TARGET, "debug", "examples", "verif_replay")
        if p.returncode != 0 or not os.path.exists(binp):
            errs = [l for l in p.stdout.splitlines() if l.startswith("error")]
            res = (None, "replay driver build failed: " + (errs[0] if errs else p.stdout[-300:]))
        else:
            # copy the binary out of the shared target dir so that a later rebuild cannot swap it mid-run
            out = os.path.join(ov.BUILD_DIR, "verif_replay.%d" % os.getpid())
            shutil.copy(binp, out)
            res = (out, None)
        if notes is not None:
            notes.append("replay driver built in %.0fs" % (time.time() - t0))
    finally:
        o.__exit__(None, None, None)
    _built[key] = res
    return res


def run_scenario(args, timeout=300, notes=None):
    """Returns dict(reproduced=bool|None, output=str, how=str)."""
    binp, err = build_driver(notes)
    if err:
        return {"reproduced": None, "output": err, "how": "driver " + " ".join(args)}
    try:
        p = subprocess.run([binp] + list(args), stdout=subprocess.PIPE, stderr=subprocess.STDOUT, text=True, timeout=timeout,
                           env=dict(os.environ, RUST_LOG="off"))
        out = p.stdout.strip().splitlines()
        verdict = [l for l in out if l.startswith(("REPRODUCED", "NOT-REPRODUCED"))]
        line = verdict[-1] if verdict else (out[-1] if out else "")
        rep = True if line.startswith("REPRODUCED") else False if line.startswith("NOT-REPRODUCED") else None
        return {"reproduced": rep, "output": line[:600], "how": "native scenario: verif_replay " + " ".join(args)}
    except subprocess.TimeoutExpired:
        return {"reproduced": None, "output": "scenario timed out", "how": "driver " + " ".join(args)}


QUOTA_SRC = os.path.join(ov.VERIF, "replay", "driver", "quota_race.rs")


def run_quota_race(rounds=300, timeout=600, notes=None):
    """C14: build the real server binary and the gRPC race driver (replay/driver/quota_race.rs) from a pristine copy of
    the current tree, start the server with authentication and a 4-vector tenant, and race Insert(overwrite) against
    Delete of the same document.  REPRODUCED iff the tenant ends up holding more live documents than max_vectors."""
    how = "native scenario: quota_race <server binary built from the current tree> %d (concurrent gRPC Insert||Delete rounds)" % rounds
    os.makedirs(NATIVE_TARGET, exist_ok=True)
    t0 = time.time()
    o = ov.Overlay("native-quota", "native")
    o.__enter__()
    try:
        exdir = os.path.join(o.root, "engine", "examples")
        os.makedirs(exdir, exist_ok=True)
        shutil.copy(QUOTA_SRC, os.path.join(exdir, "quota_race.rs"))
        env = dict(os.environ)
        env["CARGO_NET_OFFLINE"] = "true"
        env.pop("RUSTUP_TOOLCHAIN", None)
        p = subprocess.run(["cargo", "build", "--offline", "--bin", "kyrodb_server", "--example", "quota_race", "--target-dir", NATIVE_TARGET, "-j", "12"],
                           cwd=os.path.join(o.root, "engine"), env=env, stdout=subprocess.PIPE, stderr=subprocess.STDOUT, text=True, timeout=2400)
        srv = os.path.join(NATIVE_TARGET, "debug", "kyrodb_server")
        drv = os.path.join(NATIVE_TARGET, "debug", "examples", "quota_race")
        if p.returncode != 0 or not os.path.exists(srv) or not os.path.exists(drv):
            errs = [l for l in p.stdout.splitlines() if l.startswith("error")]
            return {"reproduced": None, "output": "quota_race build failed: " + (errs[0] if errs else p.stdout[-300:]), "how": how}
        pid = os.getpid()
        srv2, drv2 = os.path.join(ov.BUILD_DIR, "kyrodb_server.%d" % pid), os.path.join(ov.BUILD_DIR, "quota_race.%d" % pid)
        shutil.copy(srv, srv2)
        shutil.copy(drv, drv2)
        if notes is not None:
            notes.append("server + quota_race built in %.0fs" % (time.time() - t0))
    finally:
        o.__exit__(None, None, None)
    try:
        p = subprocess.run([drv2, srv2, str(rounds)], stdout=subprocess.PIPE, stderr=subprocess.STDOUT, text=True, timeout=timeout, env=dict(os.environ, RUST_LOG="off"))
        out = p.stdout.strip().splitlines()
        verdict = [l for l in out if l.startswith(("REPRODUCED", "NOT-REPRODUCED"))]
        line = verdict[-1] if verdict else (out[-1] if out else "")
        rep = True if line.startswith("REPRODUCED") else False if line.startswith("NOT-REPRODUCED") else None
        return {"reproduced": rep, "output": line[:600], "how": how}
    except subprocess.TimeoutExpired:
        return {"reproduced": None, "output": "scenario timed out", "how": how}
    finally:
        for f in (srv2, drv2):
            try:
                os.unlink(f)
            except OSError:
                pass


def cleanup():
    for k, (binp, _e) in list(_built.items()):
        if binp and os.path.exists(binp):
            try:
                os.unlink(binp)
            except OSError:
                pass


# ---------------------------------------------------------------------------------------------
# ./check <Cxx> --replay <path>
# ---------------------------------------------------------------------------------------------
SCENARIO_BY_OBLIGATION = {
    ("C13", "O13.2/no_silent_fallback"): ["fallback-snapshot"],
    ("C13", "O13.3/midframe_eof"): ["midframe-eof"],
    ("C13", "O13.6/manifest_keys"): ["manifest-key-flip"],
    ("C13", "O13.7/seq_continuity"): ["clean-truncation"],
    ("C13", "O13.8/fallback_order"): ["manifest-names-missing-snapshot"],
    ("C01", "O1.5/crash_window"): ["crash-after-unlink"],
    ("C01", "O1.3/periodic_idle"): ["periodic-idle"],
    ("C03", "O3.1/pinned"): ["failed-overwrite", "nan"],
    ("C12", "O12.4/prune_dependencies"): ["prune-breaks-chain"],
    ("C12", "O12.5/incremental_snapshot"): ["incremental-after-snapshot"],
    ("C12", "O12.6/pitr_selection"): ["pitr-siblings"],
    ("C02", "O2.5/unchecked_cosine_d1"): ["zero-after-normalize"],
    ("C02", "O2.5/overflow_cosine_d2"): ["zero-after-normalize"],
    ("C15", "O15.4/engine_refusal"): ["failed-overwrite", "inf"],
}


def replay_file(prop, path):
    """Re-run what can be re-run for a stored counterexample: JSON files written by the runner name the
    obligation; if a native scenario is registered for it, it is executed against the current tree
    (exit 1 if it reproduces, 0 if not).  Kani playback tests (*.playback.rs) are printed with the
    command that executes them."""
    import json
    if not os.path.exists(path):
        print("replay file not found: " + path)
        return 2
    if path.endswith(".rs"):
        print(open(path).read())
        print("\n# to execute: this test is appended to the harness module of an overlay copy and run with `cargo kani playback -Z concrete-playback`;")
        print("# `./check %s` does exactly that automatically whenever the harness fails." % prop)
        return 0
    d = json.load(open(path))
    print(json.dumps(d, indent=1)[:4000])
    if (d.get("property", prop), d.get("obligation", "")) == ("C14", "O14.3/delete_locked"):
        r = run_quota_race()
        print("\n[verif] %s: %s" % (r.get("how"), r.get("output")))
        if r.get("reproduced"):
            print("VIOLATION property=%s replay=%s" % (prop, path))
            return 1
        return 0 if r.get("reproduced") is False else 2
    sc = SCENARIO_BY_OBLIGATION.get((d.get("property", prop), d.get("obligation", "")))
    if not sc:
        print("\n[verif] no native scenario is registered for this obligation; the stored path/model above is the counterexample")
        return 0
    r = run_scenario(sc, timeout=300)
    cleanup()
    print("\n[verif] native scenario `verif_replay %s`: %s" % (" ".join(sc), r.get("output")))
    if r.get("reproduced"):
        print("VIOLATION property=%s replay=%s" % (prop, path))
        return 1
    return 0 if r.get("reproduced") is False else 2
