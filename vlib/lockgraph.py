"""C08 engine-M LOCK_GRAPH: lock-order graph from MIR, acyclicity decided by z3 (DESIGN C08).

Per function a forward may-analysis computes which guards can be live at each block; every blocking
acquisition (or call into a function that may acquire) made while a guard is live adds an edge
held-lock -> acquired-lock.  z3 is asked for a rank assignment consistent with all edges: sat = the
lock order is acyclic (no set of operations can wait on each other in a cycle); unsat = a cycle
exists, which is then extracted and reported with the functions that contribute each edge.
"""
import re
import subprocess
import time

from . import mir as M
from . import mirflow as MF

ACQ_RE = re.compile(r"^(?:parking_lot::lock_api::)?(RwLock|Mutex|ReentrantMutex|FairMutex)::<(.*)>::(read|write|upgradable_read|lock|read_recursive|try_read|try_write|try_lock|try_upgradable_read|try_read_for|try_write_for|try_lock_for)$")
GUARD_TY = re.compile(r"(RwLockReadGuard|RwLockWriteGuard|MutexGuard|RwLockUpgradableReadGuard)<")
CLOSURE_RE = re.compile(r"\{closure@([^}]*?)\}")


def _payload(generic):
    g = MF.short_ty(generic)
    g = re.sub(r"^parking_lot::(RawRwLock|RawMutex), ", "", g)
    return g


class Acq:
    __slots__ = ("block", "lock", "mode", "blocking", "guard", "via")

    def __init__(self, block, lock, mode, blocking, guard, via=None):
        self.block = block
        self.lock = lock
        self.mode = mode
        self.blocking = blocking
        self.guard = guard
        self.via = via


class FnLocks:
    def __init__(self, name, fn):
        self.name = name
        self.fn = fn
        self.acqs = {}  # block idx -> [Acq]
        self.calls = {}  # block idx -> [callee fn names]
        self.may_acquire = set()  # lock ids (blocking), transitive
        self.direct = set()
        self.returns_guard_of = set()
        self.modes = {}  # lock -> strongest mode this function (transitively) acquires it in
        self.shared_writer = set()  # locks written through a shared (&self) owner path


def lock_identity(fn, b, kind, generic):
    payload = _payload(generic)
    a0 = M._split_top(b.args)[0] if b.args else ""
    o = MF.origin(fn, a0)
    m = None
    for m in re.finditer(r"\.(\d+): (?:Arc<)?(?:RwLock|Mutex)<", o):
        pass
    idx = m.group(1) if m else "?"
    return "%s<%s>#%s" % (kind, payload, idx)


def analyse(funcs, include=lambda n: True):
    """Returns (edges, info) where edges = {(L1, L2): [provenance dict]}."""
    # ---- index functions ------------------------------------------------------------------
    by_tail = {}
    closure_by_span = {}
    for name, f in funcs.items():
        parts = name.split("::")
        tail2 = "::".join(parts[-2:]) if len(parts) >= 2 else name
        by_tail.setdefault(tail2, []).append(name)
        by_tail.setdefault(parts[-1], []).append(name)
        m = re.search(r"_1: &?(?:mut )?\{closure@([^}]*)\}", f.sig)
        if m and "{closure#" in name:
            closure_by_span[m.group(1)] = name
    trait_impls = {}
    for name in funcs:
        m = re.search(r"<(\w+) as (\w+)>::(\w+)$", name)
        if m:
            trait_impls.setdefault((m.group(2), m.group(3)), []).append(name)

    def resolve(callee):
        c = MF.short_ty(callee)
        out = []
        m = re.match(r"^<dyn (?:\w+::)*(\w+) as .*>::(\w+)$", c) or re.match(r"^<.* as (?:\w+::)*(\w+)(?:<.*>)?>::(\w+)$", c)
        if m:
            out += trait_impls.get((m.group(1), m.group(2)), [])
        base = re.sub(r"::<[^()]*>$", "", c)
        base = re.sub(r"::<.*?>(?=::)", "", base)
        if base in funcs:
            out.append(base)
        else:
            parts = base.split("::")
            t2 = "::".join(parts[-2:])
            cands = by_tail.get(t2, []) if len(parts) >= 2 else []
            if len(cands) == 1:
                out.append(cands[0])
            elif len(cands) > 1:
                out += [x for x in cands if x.endswith("::" + base)] or []
        for sp in CLOSURE_RE.findall(callee):
            if sp in closure_by_span:
                out.append(closure_by_span[sp])
        return sorted(set(out))

    # ---- per-function direct info -----------------------------------------------------------
    info = {}
    for name, f in funcs.items():
        if not include(name):
            continue
        fl = FnLocks(name, f)
        for idx, b in f.blocks.items():
            if b.cleanup or b.kind != "call" or not b.callee:
                continue
            m = ACQ_RE.match(b.callee)
            if m:
                kind, generic, meth = m.group(1), m.group(2), m.group(3)
                lock = lock_identity(f, b, kind, generic)
                mode = "r" if meth in ("read", "read_recursive", "upgradable_read", "try_read", "try_upgradable_read", "try_read_for") else "w"
                blocking = not meth.startswith("try_")
                fl.acqs.setdefault(idx, []).append(Acq(idx, lock, mode, blocking, b.dest))
                if blocking:
                    fl.direct.add(lock)
                    if mode == "w" or fl.modes.get(lock) is None:
                        fl.modes[lock] = mode
                if mode == "w":
                    a0 = M._split_top(b.args)[0] if b.args else ""
                    if not re.search(r"arg\(_\d+: &mut ", MF.origin(f, a0)):
                        fl.shared_writer.add(lock)
            else:
                cal = resolve(b.callee)
                # closures passed as *arguments* (e.g. write_with_retry(|| ...)) are resolved from the arg types too
                if cal:
                    fl.calls[idx] = cal
        info[name] = fl

    # ---- guard-returning callees: which locks' guards do they hand back? ------------------------
    for fl in info.values():
        ret = fl.fn.sig.rsplit("->", 1)[-1] if "->" in fl.fn.sig else ""
        if GUARD_TY.search(ret):
            fl.returns_guard_of = set(a.lock for accs in fl.acqs.values() for a in accs)

    # ---- transitive may-acquire summaries ------------------------------------------------------
    for fl in info.values():
        fl.may_acquire = set(fl.direct)
    changed = True
    rounds = 0
    while changed and rounds < 50:
        changed = False
        rounds += 1
        for fl in info.values():
            for cal in fl.calls.values():
                for c in cal:
                    ci = info.get(c)
                    if ci and not ci.may_acquire <= fl.may_acquire:
                        fl.may_acquire |= ci.may_acquire
                        changed = True
                    if ci:
                        for lk, md in ci.modes.items():
                            if fl.modes.get(lk) != "w" and (md == "w" or lk not in fl.modes):
                                if fl.modes.get(lk) != md:
                                    fl.modes[lk] = md
                                    changed = True

    # ---- intra-procedural held-set analysis -------------------------------------------------------
    edges = {}

    def add_edge(a, b, prov):
        edges.setdefault((a, b), [])
        if len(edges[(a, b)]) < 6:
            edges[(a, b)].append(prov)

    for fl in info.values():
        f = fl.fn
        # acquisition via guard-returning callee / closure
        guard_acq = dict(fl.acqs)
        for idx, cal in fl.calls.items():
            b = f.blocks[idx]
            dty = f.locals.get(b.dest, "") if b.dest else ""
            if b.dest and GUARD_TY.search(dty):
                for c in cal:
                    ci = info.get(c)
                    if ci:
                        for lock in ci.returns_guard_of:
                            mode = "w" if ("WriteGuard" in dty or "MutexGuard" in dty) else "r"
                            guard_acq.setdefault(idx, []).append(Acq(idx, lock, mode, True, b.dest, via=c))
        if not guard_acq:
            # no guard is ever live here: only calls matter for callers (summaries), nothing to do
            continue
        guards = {}  # guard local -> (lock, mode)
        for accs in guard_acq.values():
            for a in accs:
                if a.guard and re.match(r"^_\d+$", a.guard):
                    guards[a.guard] = (a.lock, a.mode)
        # aliases
        alias_of = {g: g for g in guards}
        ch = True
        while ch:
            ch = False
            for b in f.blocks.values():
                if b.cleanup:
                    continue
                for s_ in b.stmts:
                    m = re.match(r"^(_\d+) = move (_\d+);$", s_)
                    if m and m.group(2) in alias_of and m.group(1) not in alias_of:
                        alias_of[m.group(1)] = alias_of[m.group(2)]
                        ch = True
        # drop-flag guarded drops: switch on a pure flag local with one arm = drop(alias) -> treat the switch as the drop
        defs = f.build_defs()
        flag_release = {}
        for idx, b in f.blocks.items():
            if b.cleanup or b.kind != "switch":
                continue
            m = re.match(r"^(_\d+)$", (b.switch_local or "").strip())
            if not m:
                continue
            ds = defs.get(m.group(1), [])
            if not ds or not all(re.match(r"^const (true|false)$", d[2]) for d in ds):
                continue
            for _lab, t in b.succs:
                tb = f.blocks.get(t)
                if tb is not None and tb.kind == "drop" and tb.args.strip() in alias_of:
                    flag_release.setdefault(idx, set()).add(alias_of[tb.args.strip()])

        def releases(b):
            out = set()
            if b.kind == "drop" and b.args.strip() in alias_of:
                out.add(alias_of[b.args.strip()])
            if b.kind == "call":
                for a in re.findall(r"move (_\d+)", b.args):
                    if a in alias_of:
                        out.add(alias_of[a])
            out |= flag_release.get(b.idx, set())
            # guard moved into the return place or a struct: treat as released from this function's view
            for s_ in b.stmts:
                m = re.match(r"^_0 = move (_\d+);$", s_)
                if m and m.group(1) in alias_of:
                    out.add(alias_of[m.group(1)])
            return out

        state_in = {0: frozenset()}
        work = [0]
        succs = {i: [t for _l, t in b.succs if t in f.blocks and not f.blocks[t].cleanup] for i, b in f.blocks.items() if not b.cleanup}
        iters = 0
        while work and iters < 200000:
            iters += 1
            i = work.pop()
            b = f.blocks[i]
            held = set(state_in.get(i, frozenset()))
            # edges at this block (before its own effect)
            if held:
                for a in guard_acq.get(i, []):
                    if a.blocking:
                        for g in held:
                            add_edge(guards[g][0], a.lock, {"fn": fl.name, "held_mode": guards[g][1], "acq_mode": a.mode, "how": "direct" if not a.via else "via " + a.via, "bb": i,
                                                            "held_all": sorted((guards[h][0], guards[h][1]) for h in held)})
                if i in fl.calls and i not in guard_acq:
                    for c in fl.calls[i]:
                        ci = info.get(c)
                        if not ci:
                            continue
                        for lock in ci.may_acquire:
                            for g in held:
                                add_edge(guards[g][0], lock, {"fn": fl.name, "held_mode": guards[g][1], "acq_mode": ci.modes.get(lock, "?"), "how": "call " + c, "bb": i,
                                                              "held_all": sorted((guards[h][0], guards[h][1]) for h in held)})
            out = set(held)
            out -= releases(b)
            for a in guard_acq.get(i, []):
                if a.guard in guards and a.blocking:
                    out.add(a.guard)
            out = frozenset(out)
            for t in succs.get(i, []):
                old = state_in.get(t)
                new = out if old is None else (old | out)
                if new != old:
                    state_in[t] = new
                    work.append(t)
    return edges, info


# ---------------------------------------------------------------------------------------------
def decide_acyclic(edges, ignore_self=True, z3_bin=None):
    """z3: is there a rank assignment with rank[a] < rank[b] for every edge?  Returns (verdict, model/core, seconds)."""
    z3_bin = z3_bin or MF.Z3_BIN
    locks = sorted({x for e in edges for x in e})
    ids = {l: i for i, l in enumerate(locks)}
    lines = ["(set-logic ALL)", "(set-option :produce-unsat-cores true)"]
    for l in locks:
        lines.append("(declare-const r%d Int)" % ids[l])
    named = {}
    k = 0
    for (a, b) in sorted(edges):
        if a == b and ignore_self:
            continue
        nm = "e%d" % k
        named[nm] = (a, b)
        lines.append("(assert (! (< r%d r%d) :named %s))" % (ids[a], ids[b], nm))
        k += 1
    lines += ["(check-sat)", "(get-unsat-core)"]
    t0 = time.time()
    try:
        p = subprocess.run([z3_bin, "-in", "-T:60"], input="\n".join(lines) + "\n", stdout=subprocess.PIPE, stderr=subprocess.STDOUT, text=True, timeout=90)
    except Exception as e:  # noqa: BLE001
        return "unknown", str(e), time.time() - t0
    dt = time.time() - t0
    out = p.stdout.strip().splitlines()
    first = out[0] if out else ""
    if first == "sat":
        return "sat", None, dt
    if first == "unsat":
        core = re.findall(r"e\d+", " ".join(out[1:]))
        return "unsat", [named[c] for c in core if c in named], dt
    return "unknown", p.stdout[:300], dt


def simple_cycles(edges, max_len=4, ignore_self=True):
    g = {}
    for (a, b) in edges:
        if a == b and ignore_self:
            continue
        g.setdefault(a, set()).add(b)
    cycles = set()
    nodes = sorted(g)

    def dfs(start, cur, path):
        for nxt in g.get(cur, ()):
            if nxt == start and len(path) >= 1:
                c = tuple(path)
                k = min(range(len(c)), key=lambda i: c[i])
                cycles.add(c[k:] + c[:k])
            elif nxt not in path and len(path) < max_len and nxt > start:
                dfs(start, nxt, path + [nxt])

    for n in nodes:
        dfs(n, n, [n])
    return sorted(cycles, key=lambda c: (len(c), c))


def gate_protected(cycle, edges):
    """A cycle is benign if every way of forming each of its edges happens while one common lock that
    is not part of the cycle is held exclusively (a gate lock serialises the participants)."""
    common = None
    for i in range(len(cycle)):
        a, b = cycle[i], cycle[(i + 1) % len(cycle)]
        gates_edge = None
        for p in edges[(a, b)]:
            g = {l for (l, m) in p.get("held_all", []) if m == "w" and l not in cycle}
            gates_edge = g if gates_edge is None else (gates_edge & g)
        gates_edge = gates_edge or set()
        common = gates_edge if common is None else (common & gates_edge)
    return sorted(common or [])
