#!/bin/bash
# usage: tools_seed_test.sh <patch.diff> <prop> [<prop> ...]   — apply a seeded change to /repo, run checks, undo.
set -u
PATCH=$1; shift
cd /repo || exit 2
if [ -n "$(git status --porcelain -- engine/src)" ]; then echo "repo dirty; refusing"; exit 2; fi
git apply "$PATCH" || git apply --3way "$PATCH" || { echo "patch does not apply"; exit 2; }
cd /verif
for p in "$@"; do
  echo "##### $p on $(basename $(dirname $PATCH))"
  timeout ${SEED_TIMEOUT:-3000} ./check $p --tier ${SEED_TIER:-quick} 2>&1 | grep -E "^\[verif\]|violated|inconclusive|VIOLATION|KNOWN" | cut -c1-400
  echo "exit=${PIPESTATUS[0]}"
done
git -C /repo checkout -- . ; git -C /repo status --short | head -3
