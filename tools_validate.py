#!/opt/veriftools/pyvenv/bin/python
import json, sys, glob
import jsonschema
jsonschema.validate(json.load(open('/verif/MANIFEST.json')), json.load(open('/root/.vp/MANIFEST.schema.json')))
sch = json.load(open('/root/.vp/EVIDENCE.schema.json'))
for f in sorted(glob.glob('/verif/evidence/*.json')):
    jsonschema.validate(json.load(open(f)), sch)
    print('ok', f)
print('manifest + evidence valid')
