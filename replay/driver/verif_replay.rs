//! Native replay scenarios (built as an example of the *unmodified* crate copy; public API only).
//! Usage: verif_replay <scenario> [args]   -> prints "REPRODUCED: <what>" and exits 1 when the
//! violation is observed on the real code, prints "NOT-REPRODUCED: <what>" and exits 0 otherwise.
use kyrodb_engine::{metrics::MetricsCollector, DistanceMetric, FsyncPolicy, HnswBackend, HotTier, VectorCoherenceToken};
use std::collections::HashMap;
use std::path::{Path, PathBuf};
use std::sync::Arc;
use std::time::{Duration, Instant};

fn vec_for(id: u64, dim: usize) -> Vec<f32> {
    (0..dim).map(|j| ((id * 31 + j as u64 * 7) % 97) as f32 / 10.0 + 0.5).collect()
}

fn open_new(dir: &Path, metric: DistanceMetric, interval: usize, max_wal: u64) -> HnswBackend {
    HnswBackend::with_persistence(4, metric, vec![], vec![], 10_000, dir, FsyncPolicy::Always, interval, max_wal).expect("create backend")
}

fn recover(dir: &Path, metric: DistanceMetric) -> anyhow::Result<HnswBackend> {
    HnswBackend::recover(4, metric, dir, 10_000, FsyncPolicy::Always, 0, 0, MetricsCollector::new())
}

fn census(b: &HnswBackend, ids: impl Iterator<Item = u64>) -> Vec<(u64, Option<Vec<u32>>)> {
    ids.map(|id| (id, b.fetch_document(id).map(|v| v.iter().map(|x| x.to_bits()).collect()))).collect()
}

fn newest(dir: &Path, prefix: &str, suffix: &str) -> Vec<PathBuf> {
    let mut v: Vec<PathBuf> = std::fs::read_dir(dir).unwrap().flatten().map(|e| e.path())
        .filter(|p| { let n = p.file_name().unwrap().to_string_lossy().to_string(); n.starts_with(prefix) && n.ends_with(suffix) }).collect();
    v.sort();
    v
}

/// F-d/1: strict recovery accepts an older fallback snapshot although the WAL between the two
/// snapshots was compacted away.
fn fallback_snapshot() -> i32 {
    let tmp = tempfile::TempDir::new().unwrap();
    let dir = tmp.path();
    let b = open_new(dir, DistanceMetric::Euclidean, 0, 256); // tiny rotation threshold
    for id in 1..=10u64 { b.insert(id, vec_for(id, 4), HashMap::new()).unwrap(); }
    b.create_snapshot().unwrap();
    std::thread::sleep(Duration::from_millis(1100)); // snapshot file names are timestamp based
    for id in 11..=20u64 { b.insert(id, vec_for(id, 4), HashMap::new()).unwrap(); }
    b.create_snapshot().unwrap();
    let before = census(&b, 1..=20);
    drop(b);
    let snaps = newest(dir, "snapshot_", ".snap");
    if snaps.len() < 2 { println!("NOT-REPRODUCED: fewer than two snapshot files kept ({})", snaps.len()); return 0; }
    // flip one payload byte of the newest snapshot
    let newest_snap = snaps.last().unwrap();
    let mut bytes = std::fs::read(newest_snap).unwrap();
    let k = bytes.len() / 2;
    bytes[k] ^= 0x40;
    std::fs::write(newest_snap, &bytes).unwrap();
    match recover(dir, DistanceMetric::Euclidean) {
        Err(e) => { println!("NOT-REPRODUCED: strict recovery refused: {}", e); 0 }
        Ok(r) => {
            let after = census(&r, 1..=20);
            if after == before { println!("NOT-REPRODUCED: recovered collection equals pre-damage collection"); 0 }
            else {
                let missing: Vec<u64> = before.iter().zip(after.iter()).filter(|(a, b)| a != b).map(|(a, _)| a.0).collect();
                println!("REPRODUCED: strict recovery succeeded from a fallback snapshot with documents missing/altered: {:?}", missing);
                1
            }
        }
    }
}

/// A damaged snapshot *name* in the MANIFEST (one flipped bit in its decimal digits) that names no existing file and a lower
/// number than the real latest snapshot: start-up must be refused or come up with exactly the pre-damage collection
/// (the unchanged tree finds the real newest snapshot).  Falling back to an OLDER snapshot here loses the compacted segments.
fn manifest_names_missing_snapshot() -> i32 {
    let tmp = tempfile::TempDir::new().unwrap();
    let dir = tmp.path();
    let b = open_new(dir, DistanceMetric::Euclidean, 0, 256);
    for id in 1..=10u64 { b.insert(id, vec_for(id, 4), HashMap::new()).unwrap(); }
    b.create_snapshot().unwrap();
    std::thread::sleep(Duration::from_millis(2200)); // names are timestamp based: leave room for a number strictly in between
    for id in 11..=20u64 { b.insert(id, vec_for(id, 4), HashMap::new()).unwrap(); }
    b.delete(3).unwrap();
    b.create_snapshot().unwrap();
    let before = census(&b, 1..=20);
    drop(b);
    let mpath = dir.join("MANIFEST");
    let mut manifest: serde_json::Value = serde_json::from_str(&std::fs::read_to_string(&mpath).unwrap()).unwrap();
    let name = manifest["latest_snapshot"].as_str().unwrap_or("").to_string();
    let num: u64 = match name.trim_start_matches("snapshot_").trim_end_matches(".snap").parse() { Ok(n) => n, Err(_) => { println!("NOT-REPRODUCED: snapshot name not numeric: {}", name); return 0; } };
    let snaps = newest(dir, "snapshot_", ".snap");
    if snaps.len() < 2 { println!("NOT-REPRODUCED: fewer than two snapshot files kept ({})", snaps.len()); return 0; }
    let damaged = format!("snapshot_{}.snap", num - 1);
    if dir.join(&damaged).exists() { println!("NOT-REPRODUCED: the damaged name happens to exist"); return 0; }
    manifest["latest_snapshot"] = serde_json::Value::String(damaged.clone());
    std::fs::write(&mpath, serde_json::to_vec_pretty(&manifest).unwrap()).unwrap();
    match recover(dir, DistanceMetric::Euclidean) {
        Err(e) => { println!("NOT-REPRODUCED: strict recovery refused: {}", e); 0 }
        Ok(r) => {
            let after = census(&r, 1..=20);
            if after == before { println!("NOT-REPRODUCED: recovered collection equals the pre-damage collection"); 0 }
            else {
                let diff: Vec<u64> = before.iter().zip(after.iter()).filter(|(a, b)| a != b).map(|(a, _)| a.0).collect();
                println!("REPRODUCED: MANIFEST names {} (missing; real latest is {}): strict recovery succeeded from an older snapshot; documents missing/altered/resurrected: {:?}", damaged, name, diff);
                1
            }
        }
    }
}

/// F-n: a NON-final WAL segment cut at a frame boundary (every remaining frame is intact) is indistinguishable from a
/// shorter segment: nothing records how many frames a closed segment holds and recovery does not check that sequence
/// numbers continue from one frame / segment to the next, so strict start-up succeeds without the cut-off entries.
fn clean_truncation() -> i32 {
    let tmp = tempfile::TempDir::new().unwrap();
    let dir = tmp.path();
    let b = open_new(dir, DistanceMetric::Euclidean, 0, 400);
    for id in 1..=12u64 { b.insert(id, vec_for(id, 4), HashMap::new()).unwrap(); }
    let before = census(&b, 1..=12);
    drop(b);
    let manifest: serde_json::Value = serde_json::from_str(&std::fs::read_to_string(dir.join("MANIFEST")).unwrap()).unwrap();
    let segs: Vec<String> = manifest["wal_segments"].as_array().unwrap().iter().map(|s| s.as_str().unwrap().to_string()).collect();
    if segs.len() < 2 { println!("NOT-REPRODUCED: WAL did not rotate ({} segment)", segs.len()); return 0; }
    for seg in &segs[..segs.len() - 1] {
        let p = dir.join(seg);
        let bytes = std::fs::read(&p).unwrap();
        if bytes.len() < 4 + 8 { continue; }
        let len0 = u32::from_le_bytes([bytes[4], bytes[5], bytes[6], bytes[7]]) as usize;
        let end_first = 4 + 4 + len0 + 4;
        if bytes.len() <= end_first + 8 { continue; } // need a second frame to lose
        std::fs::write(&p, &bytes[..end_first]).unwrap(); // keep the header and exactly the first frame
        return match recover(dir, DistanceMetric::Euclidean) {
            Err(e) => { println!("NOT-REPRODUCED: strict recovery refused: {}", e); 0 }
            Ok(r) => {
                let after = census(&r, 1..=12);
                if after == before { println!("NOT-REPRODUCED: recovered collection equals pre-damage collection"); 0 }
                else {
                    let missing: Vec<u64> = before.iter().zip(after.iter()).filter(|(a, b)| a != b).map(|(a, _)| a.0).collect();
                    println!("REPRODUCED: strict recovery succeeded after non-final segment {} was cut at a frame boundary; documents missing: {:?}", seg, missing);
                    1
                }
            }
        };
    }
    println!("NOT-REPRODUCED: no non-final segment with two frames");
    0
}

/// F-m: the MANIFEST is plain JSON without a checksum and its parser ignores unknown keys: one flipped bit in the KEY
/// "latest_snapshot" turns it into an unknown key, the (optional) field defaults to None, strict recovery ignores the
/// snapshot and replays only the WAL segments that compaction left — the documents held only by the snapshot are gone.
fn manifest_key_flip() -> i32 {
    let tmp = tempfile::TempDir::new().unwrap();
    let dir = tmp.path();
    let b = open_new(dir, DistanceMetric::Euclidean, 0, 256); // tiny rotation threshold: the snapshot compacts older segments away
    for id in 1..=10u64 { b.insert(id, vec_for(id, 4), HashMap::new()).unwrap(); }
    b.create_snapshot().unwrap();
    for id in 11..=12u64 { b.insert(id, vec_for(id, 4), HashMap::new()).unwrap(); }
    let before = census(&b, 1..=12);
    drop(b);
    let mpath = dir.join("MANIFEST");
    let mut bytes = std::fs::read(&mpath).unwrap();
    let key = b"\"latest_snapshot\":";
    let pos = match bytes.windows(key.len()).position(|w| w == key) { Some(p) => p, None => { println!("NOT-REPRODUCED: key not found in MANIFEST"); return 0; } };
    bytes[pos + 1] ^= 0x01; // 'l' -> 'm'
    std::fs::write(&mpath, &bytes).unwrap();
    match recover(dir, DistanceMetric::Euclidean) {
        Err(e) => { println!("NOT-REPRODUCED: strict recovery refused: {}", e); 0 }
        Ok(r) => {
            let after = census(&r, 1..=12);
            if after == before { println!("NOT-REPRODUCED: recovered collection equals pre-damage collection"); 0 }
            else {
                let missing: Vec<u64> = before.iter().zip(after.iter()).filter(|(a, b)| a != b).map(|(a, _)| a.0).collect();
                println!("REPRODUCED: one flipped bit in the MANIFEST key \"latest_snapshot\": strict recovery succeeded without the snapshot; documents missing/altered: {:?}", missing);
                1
            }
        }
    }
}

/// F-d/2: a damaged length field in a frame of a NON-final WAL segment looks like a torn tail; the
/// strict reader does not count it and recovery succeeds with the rest of that segment lost.
fn midframe_eof() -> i32 {
    let tmp = tempfile::TempDir::new().unwrap();
    let dir = tmp.path();
    let b = open_new(dir, DistanceMetric::Euclidean, 0, 200);
    for id in 1..=12u64 { b.insert(id, vec_for(id, 4), HashMap::new()).unwrap(); }
    let before = census(&b, 1..=12);
    drop(b);
    let manifest: serde_json::Value = serde_json::from_str(&std::fs::read_to_string(dir.join("MANIFEST")).unwrap()).unwrap();
    let segs: Vec<String> = manifest["wal_segments"].as_array().unwrap().iter().map(|s| s.as_str().unwrap().to_string()).collect();
    if segs.len() < 2 { println!("NOT-REPRODUCED: WAL did not rotate ({} segment)", segs.len()); return 0; }
    // first segment that holds at least two frames
    for seg in &segs[..segs.len() - 1] {
        let p = dir.join(seg);
        let mut bytes = std::fs::read(&p).unwrap();
        if bytes.len() < 4 + 8 { continue; }
        let len0 = u32::from_le_bytes([bytes[4], bytes[5], bytes[6], bytes[7]]) as usize;
        if bytes.len() <= 4 + 4 + len0 + 4 + 8 { continue; } // need a second frame to lose
        // flip a high bit of the first frame's length word: length now exceeds the file
        bytes[6] ^= 0x01; // +65536
        std::fs::write(&p, &bytes).unwrap();
        return match recover(dir, DistanceMetric::Euclidean) {
            Err(e) => { println!("NOT-REPRODUCED: strict recovery refused: {}", e); 0 }
            Ok(r) => {
                let after = census(&r, 1..=12);
                if after == before { println!("NOT-REPRODUCED: recovered collection equals pre-damage collection"); 0 }
                else {
                    let missing: Vec<u64> = before.iter().zip(after.iter()).filter(|(a, b)| a != b).map(|(a, _)| a.0).collect();
                    println!("REPRODUCED: strict recovery succeeded after a length-field flip in non-final segment {} with documents missing: {:?}", seg, missing);
                    1
                }
            }
        };
    }
    println!("NOT-REPRODUCED: no non-final segment with two frames");
    0
}

/// F-a: an insert that the index rejects after the WAL append is compensated by a Delete entry; for an
/// overwrite that Delete destroys the previous (acknowledged) version after restart.
/// arg: "nan" (Euclidean, NaN lane) | "overflow" (Cosine, squared norm overflows)
fn failed_overwrite(kind: &str) -> i32 {
    let tmp = tempfile::TempDir::new().unwrap();
    let dir = tmp.path();
    let (metric, bad): (DistanceMetric, Vec<f32>) = match kind {
        "overflow" => (DistanceMetric::Cosine, vec![3.0e38, 3.0e38, 0.0, 0.0]),
        "inf" => (DistanceMetric::Euclidean, vec![f32::INFINITY, 0.0, 0.0, 0.0]),
        _ => (DistanceMetric::Euclidean, vec![f32::NAN, 1.0, 0.0, 0.0]),
    };
    let b = open_new(dir, metric, 0, 0);
    b.insert(7, vec![1.0, 0.0, 0.0, 0.0], HashMap::new()).unwrap();
    b.insert(8, vec![0.0, 1.0, 0.0, 0.0], HashMap::new()).unwrap();
    let r = b.insert(7, bad, HashMap::new());
    if r.is_ok() { println!("NOT-REPRODUCED: the engine accepted the vector (no failure to compensate)"); return 0; }
    let live = census(&b, 7..=8);
    drop(b);
    match recover(dir, metric) {
        Err(e) => { println!("REPRODUCED: restart fails after a refused overwrite: {}", e); 1 }
        Ok(rb) => {
            let after = census(&rb, 7..=8);
            if after == live { println!("NOT-REPRODUCED: collection after restart equals live collection after the refused overwrite"); 0 }
            else { println!("REPRODUCED: refused overwrite of doc 7 ({}) changed the recovered collection: live={:?} recovered={:?}", kind, live.iter().map(|x| x.1.is_some()).collect::<Vec<_>>(), after.iter().map(|x| x.1.is_some()).collect::<Vec<_>>()); 1 }
        }
    }
}

/// F-l: prune_backups keeps the newest backup of every retention bucket and deletes the rest without looking at
/// `parent_id`: a full backup and an incremental taken within the same hour fall into one bucket, the incremental is the
/// newest, the full backup is deleted, and the retained incremental can no longer be restored.
fn prune_breaks_chain() -> i32 {
    use kyrodb_engine::backup::{BackupManager, RestoreManager, RetentionPolicy, ClearDirectoryOptions};
    let tmp = tempfile::TempDir::new().unwrap();
    let data = tmp.path().join("data");
    let backups = tmp.path().join("backups");
    let restore = tmp.path().join("restore");
    std::fs::create_dir_all(&backups).unwrap();
    std::fs::create_dir_all(&restore).unwrap();
    let b = open_new(&data, DistanceMetric::Euclidean, 0, 0);
    b.insert(1, vec![1.0, 0.0, 0.0, 0.0], HashMap::new()).unwrap();
    b.create_snapshot().unwrap();
    let mgr = BackupManager::new(&backups, &data).unwrap();
    let full = mgr.create_full_backup("full".to_string()).unwrap();
    b.insert(2, vec![0.0, 1.0, 0.0, 0.0], HashMap::new()).unwrap();
    std::thread::sleep(Duration::from_millis(1100));
    let inc = mgr.create_incremental_backup(full.id, "inc".to_string()).unwrap();
    drop(b);
    let deleted = mgr.prune_backups(&RetentionPolicy::default()).unwrap();
    let remaining: Vec<_> = mgr.list_backups().unwrap().iter().map(|m| m.id).collect();
    if !remaining.contains(&inc.id) { println!("NOT-REPRODUCED: the incremental backup was not retained (deleted: {:?})", deleted); return 0; }
    let rm = RestoreManager::new(&backups, &restore).unwrap();
    match rm.restore_from_backup_with_options(inc.id, &ClearDirectoryOptions::new().with_allow_clear(true)) {
        Ok(()) => { println!("NOT-REPRODUCED: the retained incremental backup restores (pruned: {:?})", deleted); 0 }
        Err(e) => {
            if deleted.contains(&full.id) {
                println!("REPRODUCED: prune_backups(default policy) deleted full backup {} although the retained incremental {} depends on it; restoring the incremental fails: {:#}", full.id, inc.id, e); 1
            } else { println!("NOT-REPRODUCED: restore failed for another reason: {:#}", e); 0 }
        }
    }
}

/// Candidate F-o: an incremental backup ships the *current* MANIFEST and the WAL segments newer than its parent, but never a
/// snapshot.  After a snapshot + WAL compaction between the full and the incremental backup the shipped MANIFEST names a
/// snapshot that is in no archive of the chain, and the segments that snapshot covered are gone from the source directory.
fn incremental_after_snapshot() -> i32 {
    use kyrodb_engine::backup::{BackupManager, RestoreManager, ClearDirectoryOptions};
    let tmp = tempfile::TempDir::new().unwrap();
    let data = tmp.path().join("data");
    let backups = tmp.path().join("backups");
    let restore = tmp.path().join("restore");
    std::fs::create_dir_all(&backups).unwrap();
    std::fs::create_dir_all(&restore).unwrap();
    let metric = DistanceMetric::Euclidean;
    // tiny rotation threshold: every insert lands in its own segment, so a later snapshot compacts the older ones away
    let b = open_new(&data, metric, 0, 64);
    b.insert(1, vec![1.0, 0.0, 0.0, 0.0], HashMap::new()).unwrap();
    b.create_snapshot().unwrap();
    let mgr = BackupManager::new(&backups, &data).unwrap();
    let full = mgr.create_full_backup("full".to_string()).unwrap();
    std::thread::sleep(Duration::from_millis(1100));
    for id in 2..=5u64 { b.insert(id, vec![0.0, id as f32, 0.0, 0.0], HashMap::new()).unwrap(); }
    b.create_snapshot().unwrap();
    for id in 6..=7u64 { b.insert(id, vec![0.0, 0.0, id as f32, 0.0], HashMap::new()).unwrap(); }
    let live = census(&b, 1..=7u64);
    let inc = match mgr.create_incremental_backup(full.id, "inc".to_string()) {
        Ok(m) => m,
        Err(e) => { println!("NOT-REPRODUCED: the incremental backup was refused: {:#}", e); return 0; }
    };
    drop(b);
    let rm = RestoreManager::new(&backups, &restore).unwrap();
    if let Err(e) = rm.restore_from_backup_with_options(inc.id, &ClearDirectoryOptions::new().with_allow_clear(true)) {
        println!("NOT-REPRODUCED: restore itself was refused (nothing was silently lost): {:#}", e); return 0;
    }
    match recover(&restore, metric) {
        Err(e) => { println!("REPRODUCED: full {} + incremental {} verify and restore, but the restored directory does not start: {:#}", full.id, inc.id, e); 1 }
        Ok(rb) => {
            let got = census(&rb, 1..=7u64);
            if got == live { println!("NOT-REPRODUCED: restored collection equals the live one"); 0 }
            else {
                let missing: Vec<u64> = live.iter().zip(got.iter()).filter(|(a, b)| a.1 != b.1).map(|(a, _)| a.0).collect();
                println!("REPRODUCED: full {} + incremental {} verify and restore, the restored engine starts, but documents {:?} differ from the collection that existed when the incremental was taken", full.id, inc.id, missing); 1
            }
        }
    }
}

/// Point-in-time restore over a branching backup graph: two incrementals taken against the same full backup
/// ("differentials").  The target at or after the second one must yield the collection as of the second one.
fn pitr_siblings() -> i32 {
    use kyrodb_engine::backup::{BackupManager, RestoreManager, ClearDirectoryOptions};
    let tmp = tempfile::TempDir::new().unwrap();
    let data = tmp.path().join("data");
    let backups = tmp.path().join("backups");
    let restore = tmp.path().join("restore");
    std::fs::create_dir_all(&backups).unwrap();
    std::fs::create_dir_all(&restore).unwrap();
    let metric = DistanceMetric::Euclidean;
    let b = open_new(&data, metric, 0, 0);
    b.insert(1, vec![1.0, 0.0, 0.0, 0.0], HashMap::new()).unwrap();
    b.insert(2, vec![0.0, 1.0, 0.0, 0.0], HashMap::new()).unwrap();
    let mgr = BackupManager::new(&backups, &data).unwrap();
    let full = mgr.create_full_backup("full".to_string()).unwrap();
    std::thread::sleep(Duration::from_millis(1100));
    b.insert(10, vec![0.0, 0.0, 1.0, 0.0], HashMap::new()).unwrap();
    let d1 = mgr.create_incremental_backup(full.id, "d1".to_string()).unwrap();
    std::thread::sleep(Duration::from_millis(1100));
    b.insert(11, vec![0.0, 0.0, 0.0, 1.0], HashMap::new()).unwrap();
    b.delete(2).unwrap();
    let live = census(&b, [1u64, 2, 10, 11].into_iter());
    let d2 = match mgr.create_incremental_backup(full.id, "d2".to_string()) {
        Ok(m) => m,
        Err(e) => { println!("NOT-REPRODUCED: second incremental against the same parent was refused: {:#}", e); return 0; }
    };
    drop(b);
    if !(full.timestamp < d1.timestamp && d1.timestamp < d2.timestamp) { println!("NOT-REPRODUCED: backup timestamps not strictly increasing"); return 0; }
    let rm = RestoreManager::new(&backups, &restore).unwrap();
    if let Err(e) = rm.restore_point_in_time_with_options(d2.timestamp, &ClearDirectoryOptions::new().with_allow_clear(true)) {
        println!("NOT-REPRODUCED: point-in-time restore was refused: {:#}", e); return 0;
    }
    match recover(&restore, metric) {
        Err(e) => { println!("REPRODUCED: point-in-time restore at the second incremental's timestamp succeeds but the directory does not start: {:#}", e); 1 }
        Ok(rb) => {
            let got = census(&rb, [1u64, 2, 10, 11].into_iter());
            if got == live { println!("NOT-REPRODUCED: PITR at d2.timestamp yields the collection as of d2"); 0 }
            else {
                let diff: Vec<u64> = live.iter().zip(got.iter()).filter(|(a, b)| a.1 != b.1).map(|(a, _)| a.0).collect();
                println!("REPRODUCED: PITR at the timestamp of incremental d2 ({}; sibling d1 {} has the same parent {}) restores a different collection: documents {:?} differ (deleted document back / later insert missing)", d2.id, d1.id, full.id, diff); 1
            }
        }
    }
}

/// F-k: with `disable_normalization_check` the pre-log validation accepts a vector whose squared norm overflows under
/// Cosine / InnerProduct: normalisation multiplies every lane by 1/sqrt(inf) = 0, the all-zero result is finite, is
/// logged and acknowledged, and the replay-time normalisation then refuses it ("norm is zero"): restart fails.
fn zero_after_normalize() -> i32 {
    let tmp = tempfile::TempDir::new().unwrap();
    let dir = tmp.path();
    let metric = DistanceMetric::Cosine;
    let b = HnswBackend::with_persistence_with_hnsw_params(4, metric, vec![], vec![], 10_000, dir, FsyncPolicy::Always, 0, 0, 16, 200, true).expect("create backend");
    b.insert(7, vec![1.0, 0.0, 0.0, 0.0], HashMap::new()).unwrap();
    let r = b.insert(8, vec![3.0e38, 3.0e38, 0.0, 0.0], HashMap::new());
    if let Err(e) = r { println!("NOT-REPRODUCED: the engine refused the vector: {}", e); return 0; }
    let stored = b.fetch_document(8);
    drop(b);
    match HnswBackend::recover_with_hnsw_params(4, metric, dir, 10_000, FsyncPolicy::Always, 0, 0, MetricsCollector::new(), 16, 200, true) {
        Err(e) => { println!("REPRODUCED: insert of [3e38, 3e38, 0, 0] was acknowledged (stored as {:?}) and the restart then fails: {:#}", stored, e); 1 }
        Ok(rb) => {
            if rb.fetch_document(7).is_some() && rb.fetch_document(8).map(|v| v.iter().map(|x| x.to_bits()).collect::<Vec<_>>()) == stored.map(|v| v.iter().map(|x| x.to_bits()).collect::<Vec<_>>()) {
                println!("NOT-REPRODUCED: restart succeeded with both documents bit-identical"); 0
            } else { println!("REPRODUCED: restart succeeded but the recovered collection differs from the acknowledged one"); 1 }
        }
    }
}

/// F-b: HotTier insert (stats -> documents) vs delete/get (documents -> stats) lock-order inversion.
fn hot_tier_deadlock(secs: u64) -> i32 {
    let tier = Arc::new(HotTier::new(1_000_000, Duration::from_secs(3600), DistanceMetric::Euclidean));
    let stop = Arc::new(std::sync::atomic::AtomicBool::new(false));
    let progress = Arc::new(std::sync::atomic::AtomicU64::new(0));
    let mut hs = vec![];
    for t in 0..4u64 {
        let (tier, stop, progress) = (tier.clone(), stop.clone(), progress.clone());
        hs.push(std::thread::spawn(move || {
            let mut i = 0u64;
            while !stop.load(std::sync::atomic::Ordering::Relaxed) {
                let id = i % 16;
                match t % 2 {
                    0 => tier.insert_with_coherence(id, vec![1.0, 2.0, 3.0, 4.0], HashMap::new(), VectorCoherenceToken::for_embedding(1, &[1.0, 2.0, 3.0, 4.0])),
                    _ => { tier.delete(id); let _ = tier.get_with_coherence(id); }
                }
                i += 1;
                progress.fetch_add(1, std::sync::atomic::Ordering::Relaxed);
            }
        }));
    }
    let t0 = Instant::now();
    let mut last = 0;
    let mut stalled = 0;
    while t0.elapsed() < Duration::from_secs(secs) {
        std::thread::sleep(Duration::from_millis(250));
        let d = parking_lot::deadlock::check_deadlock();
        if !d.is_empty() {
            println!("REPRODUCED: parking_lot deadlock detector reports {} cycle(s) among HotTier insert_with_coherence / delete / get_with_coherence threads", d.len());
            std::process::exit(1);
        }
        let p = progress.load(std::sync::atomic::Ordering::Relaxed);
        if p == last { stalled += 1; } else { stalled = 0; }
        last = p;
        if stalled >= 8 {
            println!("REPRODUCED: no HotTier operation completed for 2 s with 4 threads running insert_with_coherence / delete / get_with_coherence (all blocked)");
            std::process::exit(1);
        }
    }
    stop.store(true, std::sync::atomic::Ordering::Relaxed);
    for h in hs { let _ = h.join(); }
    println!("NOT-REPRODUCED: {} operations completed in {} s without a lock cycle", last, secs);
    0
}

/// F-h: HnswBackend::delete keeps its metadata_index write guard alive across the automatic
/// create_snapshot() (which needs snapshot_lock.write()); a concurrent writer holds
/// snapshot_lock.read() and waits for metadata_index.write().
fn delete_snapshot_deadlock(secs: u64) -> i32 {
    let tmp = tempfile::TempDir::new().unwrap();
    let b = Arc::new(HnswBackend::with_persistence(4, DistanceMetric::Euclidean, vec![], vec![], 100_000, tmp.path(), FsyncPolicy::Never, 1, 0).expect("create"));
    let stop = Arc::new(std::sync::atomic::AtomicBool::new(false));
    let progress = Arc::new(std::sync::atomic::AtomicU64::new(0));
    let mut hs = vec![];
    for t in 0..3u64 {
        let (b, stop, progress) = (b.clone(), stop.clone(), progress.clone());
        hs.push(std::thread::spawn(move || {
            let mut i = 0u64;
            while !stop.load(std::sync::atomic::Ordering::Relaxed) {
                let id = 1 + (i % 8) + 100 * t;
                let _ = b.insert(id, vec_for(id + i, 4), HashMap::new());
                if t == 0 { let _ = b.delete(id); }
                i += 1;
                progress.fetch_add(1, std::sync::atomic::Ordering::Relaxed);
            }
        }));
    }
    stall_watch(secs, &stop, &progress, hs, "HnswBackend insert / delete with snapshot_interval=1 (delete holds metadata_index across create_snapshot)")
}

/// F-i: ids_for_metadata_filter keeps doc_store/metadata_index read guards while the fallback
/// scan() takes doc_store.read() again; a writer queued in between blocks both.
fn filter_scan_deadlock(secs: u64) -> i32 {
    use kyrodb_engine::proto::{metadata_filter::FilterType, MetadataFilter, NotFilter};
    let b = Arc::new(HnswBackend::new(4, DistanceMetric::Euclidean, vec![], vec![], 100_000).expect("create"));
    for id in 1..=32u64 { b.insert(id, vec_for(id, 4), HashMap::new()).unwrap(); }
    let stop = Arc::new(std::sync::atomic::AtomicBool::new(false));
    let progress = Arc::new(std::sync::atomic::AtomicU64::new(0));
    let mut hs = vec![];
    for t in 0..4u64 {
        let (b, stop, progress) = (b.clone(), stop.clone(), progress.clone());
        hs.push(std::thread::spawn(move || {
            // NOT with a missing inner filter cannot be compiled to a bitmap -> fallback scan
            let f = MetadataFilter { filter_type: Some(FilterType::NotFilter(Box::new(NotFilter { filter: None }))) };
            let mut i = 0u64;
            while !stop.load(std::sync::atomic::Ordering::Relaxed) {
                if t % 2 == 0 { let _ = b.ids_for_metadata_filter(&f); }
                else { let id = 1000 + (i % 64) + 100 * t; let _ = b.insert(id, vec_for(id, 4), HashMap::new()); let _ = b.delete(id); }
                i += 1;
                progress.fetch_add(1, std::sync::atomic::Ordering::Relaxed);
            }
        }));
    }
    stall_watch(secs, &stop, &progress, hs, "HnswBackend::ids_for_metadata_filter (fallback scan) vs insert/delete")
}

/// F-g: create_snapshot() unlinks compacted WAL segments *before* it saves the MANIFEST without
/// them.  A kill between the two leaves a MANIFEST that lists missing segments, and strict recovery
/// refuses to start.  The crash state is reconstructed exactly: MANIFEST #1 = final MANIFEST with the
/// pre-compaction segment list (that is what the first manifest.save() in create_snapshot wrote).
fn crash_after_unlink() -> i32 {
    let tmp = tempfile::TempDir::new().unwrap();
    let dir = tmp.path();
    let b = open_new(dir, DistanceMetric::Euclidean, 0, 200);
    for id in 1..=12u64 { b.insert(id, vec_for(id, 4), HashMap::new()).unwrap(); }
    let before: serde_json::Value = serde_json::from_str(&std::fs::read_to_string(dir.join("MANIFEST")).unwrap()).unwrap();
    let live = census(&b, 1..=12);
    b.create_snapshot().unwrap();
    let mut after: serde_json::Value = serde_json::from_str(&std::fs::read_to_string(dir.join("MANIFEST")).unwrap()).unwrap();
    let n_before = before["wal_segments"].as_array().unwrap().len();
    let n_after = after["wal_segments"].as_array().unwrap().len();
    if n_after >= n_before { println!("NOT-REPRODUCED: snapshot compacted no segment ({} -> {})", n_before, n_after); return 0; }
    // process killed right after the unlinks, before the second manifest.save(): MANIFEST #1 on disk
    after["wal_segments"] = before["wal_segments"].clone();
    std::fs::write(dir.join("MANIFEST"), serde_json::to_string_pretty(&after).unwrap()).unwrap();
    std::mem::forget(b); // no clean shutdown
    match recover(dir, DistanceMetric::Euclidean) {
        Err(e) => { println!("REPRODUCED: kill between WAL-segment unlink and the pruned MANIFEST save makes strict start-up fail: {}", e); 1 }
        Ok(r) => {
            if census(&r, 1..=12) == live { println!("NOT-REPRODUCED: restart succeeds with the full collection"); 0 }
            else { println!("REPRODUCED: restart after the crash window returns a different collection"); 1 }
        }
    }
}

/// F-c: FsyncPolicy::Periodic only syncs inside a later append.  One acknowledged append, then the
/// process idles for many intervals: strace shows no fsync/fdatasync on the WAL after the frame write.
fn periodic_idle_inner(path: &str) -> i32 {
    use kyrodb_engine::{WalEntry, WalOp, WalWriter};
    let mut w = WalWriter::create(path, FsyncPolicy::Periodic(50)).expect("create wal");
    let e = WalEntry { op: WalOp::Insert, doc_id: 1, embedding: vec![1.0, 2.0], metadata: HashMap::new(), seq_no: 1, timestamp: 1 };
    w.append(&e).expect("append acknowledged");
    std::thread::sleep(Duration::from_millis(600)); // 12 intervals of silence
    std::mem::forget(w);
    0
}

fn periodic_idle() -> i32 {
    let tmp = tempfile::TempDir::new().unwrap();
    let wal = tmp.path().join("periodic_idle.wal");
    let log = tmp.path().join("strace.log");
    let exe = std::env::current_exe().unwrap();
    let st = std::process::Command::new("strace")
        .args(["-f", "-e", "trace=openat,write,fsync,fdatasync", "-o"]).arg(&log)
        .arg(&exe).arg("periodic-idle-inner").arg(&wal).status();
    if st.is_err() { println!("NOT-REPRODUCED: strace unavailable"); return 0; }
    let text = std::fs::read_to_string(&log).unwrap_or_default();
    // find the fd of the WAL, then look at the tail of its write/sync sequence
    let mut fd: Option<String> = None;
    let mut events: Vec<&str> = Vec::new();
    for line in text.lines() {
        if line.contains("periodic_idle.wal") && line.contains("openat(") {
            if let Some(eq) = line.rfind("= ") { fd = Some(line[eq + 2..].trim().to_string()); }
        }
        if let Some(f) = &fd {
            if line.contains(&format!("write({},", f)) { events.push("write"); }
            if line.contains(&format!("fdatasync({})", f)) || line.contains(&format!("fsync({})", f)) { events.push("sync"); }
        }
    }
    if fd.is_none() || events.is_empty() { println!("NOT-REPRODUCED: WAL fd not seen in the strace log"); return 0; }
    if *events.last().unwrap() == "write" {
        println!("REPRODUCED: syscall log on the WAL is {:?}: the acknowledged frame write is never followed by fsync/fdatasync during 12 idle flush intervals (Periodic(50 ms))", events);
        1
    } else {
        println!("NOT-REPRODUCED: syscall log on the WAL is {:?}", events);
        0
    }
}

fn stall_watch(secs: u64, stop: &Arc<std::sync::atomic::AtomicBool>, progress: &Arc<std::sync::atomic::AtomicU64>, hs: Vec<std::thread::JoinHandle<()>>, what: &str) -> i32 {
    let t0 = Instant::now();
    let mut last = 0;
    let mut stalled = 0;
    while t0.elapsed() < Duration::from_secs(secs) {
        std::thread::sleep(Duration::from_millis(250));
        let d = parking_lot::deadlock::check_deadlock();
        if !d.is_empty() {
            println!("REPRODUCED: parking_lot deadlock detector reports {} cycle(s): {}", d.len(), what);
            std::process::exit(1);
        }
        let p = progress.load(std::sync::atomic::Ordering::Relaxed);
        if p == last { stalled += 1; } else { stalled = 0; }
        last = p;
        if stalled >= 12 {
            println!("REPRODUCED: no operation completed for 3 s (all threads blocked): {}", what);
            std::process::exit(1);
        }
    }
    stop.store(true, std::sync::atomic::Ordering::Relaxed);
    for h in hs { let _ = h.join(); }
    println!("NOT-REPRODUCED: {} operations completed in {} s without a lock cycle: {}", last, secs, what);
    0
}

fn main() {
    let args: Vec<String> = std::env::args().collect();
    let code = match args.get(1).map(|s| s.as_str()) {
        Some("fallback-snapshot") => fallback_snapshot(),
        Some("midframe-eof") => midframe_eof(),
        Some("manifest-key-flip") => manifest_key_flip(),
        Some("clean-truncation") => clean_truncation(),
        Some("failed-overwrite") => failed_overwrite(args.get(2).map(|s| s.as_str()).unwrap_or("nan")),
        Some("zero-after-normalize") => zero_after_normalize(),
        Some("prune-breaks-chain") => prune_breaks_chain(),
        Some("incremental-after-snapshot") => incremental_after_snapshot(),
        Some("pitr-siblings") => pitr_siblings(),
        Some("manifest-names-missing-snapshot") => manifest_names_missing_snapshot(),
        Some("periodic-idle") => periodic_idle(),
        Some("periodic-idle-inner") => periodic_idle_inner(args.get(2).map(|s| s.as_str()).unwrap_or("/nonexistent")),
        Some("crash-after-unlink") => crash_after_unlink(),
        Some("delete-snapshot-deadlock") => delete_snapshot_deadlock(args.get(2).and_then(|s| s.parse().ok()).unwrap_or(20)),
        Some("filter-scan-deadlock") => filter_scan_deadlock(args.get(2).and_then(|s| s.parse().ok()).unwrap_or(20)),
        Some("hot-tier-deadlock") => hot_tier_deadlock(args.get(2).and_then(|s| s.parse().ok()).unwrap_or(20)),
        _ => { eprintln!("unknown scenario"); 2 }
    };
    std::process::exit(code);
}
