//! Reproduction: per-tenant `max_vectors` quota drift caused by `Insert` (overwrite) racing `Delete`.
//!
//! Usage:
//!   cargo run --example quota_race -- <path-to-kyrodb_server> [rounds=300] [insert_delay_us=0]
//!
//! The program starts the REAL `kyrodb_server` binary with authentication enabled and one tenant
//! (`t1`, `max_vectors: 4`), seeds documents 1..=3, and then repeatedly sends, concurrently and on
//! two separate gRPC connections, `Insert(doc_id=1)` (an overwrite) and `Delete(doc_id=1)`.
//!
//! Suspected interleaving (server side):
//!   Insert: takes the tenant quota mutex, `enforce_vector_quota` -> `engine.exists(1) == true`
//!           -> no quota slot is reserved (`already_exists = true`)
//!   Delete: (does not take the quota mutex) `engine.delete(1)` -> existed -> counter -= 1
//!   Insert: `engine.insert(1, ..)` re-creates document 1
//! Result: document 1 is live, but the tenant's counter is one too low.
//!
//! Drift is measured only through admission behaviour: after the rounds we insert brand-new ids
//! until the server answers RESOURCE_EXHAUSTED and count how many documents the tenant really
//! holds. More than `max_vectors` live documents == reproduced.
//!
//! Exit codes: 0 = REPRODUCED, 1 = NOT-REPRODUCED, 2 = harness error.

use std::collections::HashMap;
use std::io::{Read, Write};
use std::net::{SocketAddr, TcpListener, TcpStream};
use std::path::Path;
use std::process::{Child, Command, Stdio};
use std::sync::Arc;
use std::time::{Duration, Instant};

use kyrodb_engine::proto::kyro_db_service_client::KyroDbServiceClient;
use kyrodb_engine::proto::{DeleteRequest, InsertRequest, QueryRequest};
use tonic::transport::{Channel, Endpoint};
use tonic::{Code, Request, Status};

const API_KEY: &str = "kyro_t1_a3f9d8e2c1b4567890abcdef12345678";
const TENANT_ID: &str = "t1";
const MAX_VECTORS: usize = 4;
const DIM: usize = 4;
const BASE_IDS: [u64; 3] = [1, 2, 3];
const RACE_ID: u64 = 1;
const PROBE_FIRST_ID: u64 = 100;
const PROBE_MAX: u64 = 20;

type Client = KyroDbServiceClient<Channel>;
type AnyResult<T> = Result<T, Box<dyn std::error::Error + Send + Sync>>;

/// Kills (and reaps) the server when dropped, whatever the exit path.
struct ServerGuard(Child);

impl Drop for ServerGuard {
    fn drop(&mut self) {
        let _ = self.0.kill();
        let _ = self.0.wait();
    }
}

fn free_port() -> std::io::Result<u16> {
    let listener = TcpListener::bind("127.0.0.1:0")?;
    Ok(listener.local_addr()?.port())
}

fn authed<T>(msg: T) -> Request<T> {
    let mut req = Request::new(msg);
    req.metadata_mut().insert(
        "x-api-key",
        API_KEY.parse().expect("static api key is valid ascii metadata"),
    );
    req
}

fn embedding_for(doc_id: u64) -> Vec<f32> {
    // Deterministic, non-zero, finite; the SAME vector is used for every overwrite of a doc id.
    vec![1.0, 0.25 + (doc_id % 97) as f32 * 0.01, 0.5, 0.125]
}

fn insert_req(doc_id: u64) -> InsertRequest {
    InsertRequest {
        doc_id,
        embedding: embedding_for(doc_id),
        metadata: HashMap::new(),
        namespace: String::new(),
        ..Default::default()
    }
}

async fn insert(client: &mut Client, doc_id: u64) -> Result<(), Status> {
    let resp = client.insert(authed(insert_req(doc_id))).await?.into_inner();
    if resp.success {
        Ok(())
    } else {
        Err(Status::unknown(format!(
            "insert returned success=false: {}",
            resp.error
        )))
    }
}

/// Returns `existed`.
async fn delete(client: &mut Client, doc_id: u64) -> Result<bool, Status> {
    let resp = client
        .delete(authed(DeleteRequest {
            doc_id,
            namespace: String::new(),
            ..Default::default()
        }))
        .await?
        .into_inner();
    Ok(resp.existed)
}

async fn is_live(client: &mut Client, doc_id: u64) -> Result<bool, Status> {
    match client
        .query(authed(QueryRequest {
            doc_id,
            include_embedding: false,
            namespace: String::new(),
            ..Default::default()
        }))
        .await
    {
        Ok(resp) => Ok(resp.into_inner().found),
        Err(status) if status.code() == Code::NotFound => Ok(false),
        Err(status) => Err(status),
    }
}

async fn count_live(client: &mut Client, ids: impl Iterator<Item = u64>) -> Result<usize, Status> {
    let mut live = 0usize;
    for id in ids {
        if is_live(client, id).await? {
            live += 1;
        }
    }
    Ok(live)
}

/// Blocking, dependency-free `GET /usage` returning the tenant's `vector_count` (billing/usage
/// counter, which the server updates at exactly the same places as the quota counter).
fn usage_vector_count_blocking(http_port: u16) -> Option<u64> {
    let addr: SocketAddr = format!("127.0.0.1:{http_port}").parse().ok()?;
    let mut stream = TcpStream::connect_timeout(&addr, Duration::from_secs(2)).ok()?;
    stream.set_read_timeout(Some(Duration::from_secs(2))).ok()?;
    stream.set_write_timeout(Some(Duration::from_secs(2))).ok()?;
    let request = format!(
        "GET /usage HTTP/1.1\r\nHost: 127.0.0.1:{http_port}\r\nx-api-key: {API_KEY}\r\nAccept: application/json\r\nConnection: close\r\n\r\n"
    );
    stream.write_all(request.as_bytes()).ok()?;
    let mut raw = Vec::new();
    let _ = stream.read_to_end(&mut raw);
    let text = String::from_utf8_lossy(&raw);
    if !text.starts_with("HTTP/1.1 200") && !text.starts_with("HTTP/1.0 200") {
        return None;
    }
    let start = text.find('{')?;
    let end = text.rfind('}')?;
    let json: serde_json::Value = serde_json::from_str(&text[start..=end]).ok()?;
    json.get("tenants")?
        .as_array()?
        .iter()
        .find(|t| t.get("tenant_id").and_then(|v| v.as_str()) == Some(TENANT_ID))?
        .get("vector_count")?
        .as_u64()
}

async fn usage_vector_count(http_port: u16) -> Option<u64> {
    tokio::task::spawn_blocking(move || usage_vector_count_blocking(http_port))
        .await
        .ok()
        .flatten()
}

fn fmt_opt(v: Option<u64>) -> String {
    v.map(|n| n.to_string())
        .unwrap_or_else(|| "n/a".to_string())
}

fn write_config_files(dir: &Path, grpc_port: u16, http_port: u16) -> std::io::Result<std::path::PathBuf> {
    let data_dir = dir.join("data");
    std::fs::create_dir_all(&data_dir)?;

    let keys_path = dir.join("api_keys.yaml");
    std::fs::write(
        &keys_path,
        format!(
            "api_keys:\n  - key: {API_KEY}\n    tenant_id: {TENANT_ID}\n    tenant_name: T1\n    max_qps: 1000000\n    max_vectors: {MAX_VECTORS}\n    enabled: true\n"
        ),
    )?;

    // environment.type=production is the default and validates fine on a loopback bind.
    // fsync_policy=full maps to "fsync after every WAL append", so each write holds the engine's
    // write gate for roughly a disk flush.
    let config_path = dir.join("quota_race_config.yaml");
    std::fs::write(
        &config_path,
        format!(
            r#"environment:
  type: production
server:
  host: "127.0.0.1"
  port: {grpc_port}
  http_port: {http_port}
  http_host: "127.0.0.1"
auth:
  enabled: true
  api_keys_file: "{keys}"
hnsw:
  max_elements: 100000
  dimension: {DIM}
  distance: cosine
persistence:
  data_dir: "{data}"
  fsync_policy: full
  snapshot_interval_mutations: 1000000
rate_limit:
  enabled: false
logging:
  level: warn
  format: text
"#,
            keys = keys_path.display(),
            data = data_dir.display(),
        ),
    )?;
    Ok(config_path)
}

fn spawn_server(binary: &str, config_path: &Path, log_path: &Path) -> std::io::Result<Child> {
    let log = std::fs::File::create(log_path)?;
    let log_err = log.try_clone()?;
    let mut cmd = Command::new(binary);
    cmd.arg("--config")
        .arg(config_path)
        .stdin(Stdio::null())
        .stdout(Stdio::from(log))
        .stderr(Stdio::from(log_err));
    // Keep the run hermetic: the server layers KYRODB* environment variables over the file.
    for (name, _) in std::env::vars_os() {
        if name.to_string_lossy().starts_with("KYRODB") {
            cmd.env_remove(name);
        }
    }
    cmd.spawn()
}

fn wait_for_port(server: &mut ServerGuard, port: u16, log_path: &Path) -> AnyResult<()> {
    let addr: SocketAddr = format!("127.0.0.1:{port}").parse()?;
    let deadline = Instant::now() + Duration::from_secs(30);
    loop {
        if let Some(status) = server.0.try_wait()? {
            let log = std::fs::read_to_string(log_path).unwrap_or_default();
            return Err(format!("server exited early ({status}); log:\n{log}").into());
        }
        if TcpStream::connect_timeout(&addr, Duration::from_millis(200)).is_ok() {
            return Ok(());
        }
        if Instant::now() >= deadline {
            let log = std::fs::read_to_string(log_path).unwrap_or_default();
            return Err(format!("gRPC port {port} not accepting after 30s; log:\n{log}").into());
        }
        std::thread::sleep(Duration::from_millis(100));
    }
}

#[derive(Default)]
struct RoundStats {
    rounds: usize,
    insert_ok: usize,
    insert_err: usize,
    delete_existed: usize,
    live_after: usize,
    existed_and_live: usize,
    reinserted: usize,
    /// Rounds after which the server's `/usage` vector_count was lower than the number of live
    /// documents (first such round, and the number of rounds in which the gap grew).
    first_drift_round: Option<usize>,
    drift_increments: usize,
    max_usage_gap: i64,
}

async fn run(binary: &str, rounds: usize, insert_delay_us: u64, dir: &Path) -> AnyResult<i32> {
    let grpc_port = free_port()?;
    let mut http_port = free_port()?;
    while http_port == grpc_port {
        http_port = free_port()?;
    }
    let config_path = write_config_files(dir, grpc_port, http_port)?;
    let log_path = dir.join("server.log");

    let mut server = ServerGuard(spawn_server(binary, &config_path, &log_path)?);
    wait_for_port(&mut server, grpc_port, &log_path)?;
    println!("server up: grpc=127.0.0.1:{grpc_port} http=127.0.0.1:{http_port} (auth on, tenant {TENANT_ID}, max_vectors={MAX_VECTORS}, fsync=full)");

    // Two independent connections so the two RPCs really run on different server tasks.
    let uri = format!("http://127.0.0.1:{grpc_port}");
    let mut inserter: Client = KyroDbServiceClient::new(Endpoint::from_shared(uri.clone())?.connect().await?);
    let deleter: Client =KyroDbServiceClient::new(Endpoint::from_shared(uri)?.connect().await?);

    // Step 3a: seed 3 of 4 slots.
    for id in BASE_IDS {
        insert(&mut inserter, id).await?;
    }
    let seeded_live = count_live(&mut inserter, BASE_IDS.into_iter()).await?;
    println!(
        "seeded ids 1..=3: live={seeded_live} usage.vector_count={}",
        fmt_opt(usage_vector_count(http_port).await)
    );
    if seeded_live != BASE_IDS.len() {
        return Err(format!("seeding failed: only {seeded_live} live").into());
    }

    // Step 3b: the race rounds.
    let mut stats = RoundStats::default();
    let mut last_gap: i64 = 0;
    let started = Instant::now();
    for round in 1..=rounds {
        let barrier = Arc::new(tokio::sync::Barrier::new(2));

        let insert_task = {
            let mut client = inserter.clone();
            let barrier = barrier.clone();
            tokio::spawn(async move {
                barrier.wait().await;
                if insert_delay_us > 0 {
                    // Spin: tokio timers have 1 ms granularity, far coarser than the race window.
                    let until = Instant::now() + Duration::from_micros(insert_delay_us);
                    while Instant::now() < until {
                        std::hint::spin_loop();
                    }
                }
                insert(&mut client, RACE_ID).await
            })
        };
        let delete_task = {
            let mut client = deleter.clone();
            let barrier = barrier.clone();
            tokio::spawn(async move {
                barrier.wait().await;
                delete(&mut client, RACE_ID).await
            })
        };

        let insert_result = insert_task.await?;
        let delete_result = delete_task.await?;

        stats.rounds += 1;
        match &insert_result {
            Ok(()) => stats.insert_ok += 1,
            Err(status) => {
                stats.insert_err += 1;
                println!("round {round}: overwrite Insert failed: {status}");
            }
        }
        let existed = delete_result?;
        if existed {
            stats.delete_existed += 1;
        }

        let live = is_live(&mut inserter, RACE_ID).await?;
        if live {
            stats.live_after += 1;
        }
        if existed && live {
            stats.existed_and_live += 1;
        }

        // Diagnostic only (not the verdict): compare the usage counter to the real live count.
        let live_now = count_live(&mut inserter, BASE_IDS.into_iter()).await? as i64;
        if let Some(usage) = usage_vector_count(http_port).await {
            let gap = live_now - usage as i64;
            if gap > 0 && stats.first_drift_round.is_none() {
                stats.first_drift_round = Some(round);
                println!(
                    "round {round}: first observable drift: live={live_now} usage.vector_count={usage} (delete.existed={existed}, doc1 live={live})"
                );
            }
            if gap > last_gap {
                stats.drift_increments += 1;
            }
            last_gap = gap;
            stats.max_usage_gap = stats.max_usage_gap.max(gap);
        }

        if !live {
            // Fresh insert: reserves a slot, accounting stays correct.
            match insert(&mut inserter, RACE_ID).await {
                Ok(()) => stats.reinserted += 1,
                Err(status) => {
                    return Err(format!("round {round}: re-insert of doc {RACE_ID} failed: {status}").into())
                }
            }
        }
    }
    let elapsed = started.elapsed();

    println!(
        "rounds={} elapsed={:.2}s insert_ok={} insert_err={} delete_existed={} doc1_live_after={} existed_AND_live={} reinserted={}",
        stats.rounds,
        elapsed.as_secs_f64(),
        stats.insert_ok,
        stats.insert_err,
        stats.delete_existed,
        stats.live_after,
        stats.existed_and_live,
        stats.reinserted
    );
    println!(
        "usage-counter diagnostic: first_drift_round={} rounds_where_gap_grew={} max(live - usage.vector_count)={}",
        stats
            .first_drift_round
            .map(|r| r.to_string())
            .unwrap_or_else(|| "none".to_string()),
        stats.drift_increments,
        stats.max_usage_gap
    );

    // Step 4: measure drift purely through admission behaviour.
    let live_base = count_live(&mut inserter, BASE_IDS.into_iter()).await?;
    let usage_before = usage_vector_count(http_port).await;
    println!(
        "before probe: live(ids 1..=3)={live_base} usage.vector_count={}",
        fmt_opt(usage_before)
    );

    let mut accepted = 0u64;
    let mut stop_reason = format!("all {PROBE_MAX} probe inserts accepted");
    for id in PROBE_FIRST_ID..PROBE_FIRST_ID + PROBE_MAX {
        match insert(&mut inserter, id).await {
            Ok(()) => accepted += 1,
            Err(status) if status.code() == Code::ResourceExhausted => {
                stop_reason = format!("id {id} rejected: {}", status.message());
                break;
            }
            Err(status) => {
                stop_reason = format!("id {id} failed unexpectedly: {status}");
                break;
            }
        }
    }
    println!("probe: accepted {accepted} NEW ids starting at {PROBE_FIRST_ID}; stopped because {stop_reason}");

    let live_total = count_live(
        &mut inserter,
        BASE_IDS
            .into_iter()
            .chain(PROBE_FIRST_ID..PROBE_FIRST_ID + PROBE_MAX),
    )
    .await?;
    let usage_after = usage_vector_count(http_port).await;
    println!(
        "after probe: live_total={live_total} usage.vector_count={}",
        fmt_opt(usage_after)
    );

    let code = if live_total > MAX_VECTORS {
        println!(
            "REPRODUCED quota drift: tenant holds {live_total} live documents with max_vectors={MAX_VECTORS} after {rounds} insert||delete rounds (usage.vector_count={})",
            fmt_opt(usage_after)
        );
        0
    } else {
        println!(
            "NOT-REPRODUCED tenant holds {live_total} live documents (limit {MAX_VECTORS}) (usage.vector_count={})",
            fmt_opt(usage_after)
        );
        1
    };

    drop(server); // kill + reap before the temp dir goes away
    Ok(code)
}

fn main() {
    let args: Vec<String> = std::env::args().collect();
    if args.len() < 2 {
        eprintln!("usage: quota_race <path-to-kyrodb_server> [rounds=300] [insert_delay_us=0]");
        std::process::exit(2);
    }
    let binary = args[1].clone();
    let rounds: usize = args.get(2).and_then(|s| s.parse().ok()).unwrap_or(300);
    let insert_delay_us: u64 = args.get(3).and_then(|s| s.parse().ok()).unwrap_or(0);

    let tmp = match tempfile::Builder::new().prefix("kyrodb_quota_race_").tempdir() {
        Ok(dir) => dir,
        Err(e) => {
            eprintln!("cannot create temp dir: {e}");
            std::process::exit(2);
        }
    };

    let runtime = tokio::runtime::Builder::new_multi_thread()
        .worker_threads(4)
        .enable_all()
        .build()
        .expect("tokio runtime");

    // `run` owns the ServerGuard, so the server is killed on every return path (Ok or Err).
    let outcome = runtime.block_on(run(&binary, rounds, insert_delay_us, tmp.path()));
    drop(runtime);

    let code = match outcome {
        Ok(code) => code,
        Err(e) => {
            eprintln!("HARNESS-ERROR: {e}");
            2
        }
    };

    if let Err(e) = tmp.close() {
        eprintln!("warning: failed to remove temp dir: {e}");
    }
    std::process::exit(code);
}
