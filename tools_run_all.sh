#!/bin/bash
# usage: tools_run_all.sh quick|thorough [props...]  — run the checks sequentially, one log per property under build/logs/all-<tier>/
TIER=${1:-quick}; shift
PROPS=${@:-C01 C02 C03 C04 C06 C07 C08 C09 C10 C11 C12 C13 C14 C15 C17 C18 C19 C20}
cd "$(dirname "$0")"
mkdir -p build/logs/all-$TIER
for p in $PROPS; do
  s=$(date +%s)
  ./check $p --tier $TIER > build/logs/all-$TIER/$p.log 2>&1
  rc=$?
  echo "$p rc=$rc $(( $(date +%s) - s ))s $(grep -E '^\[verif\] C' build/logs/all-$TIER/$p.log | tail -1 | cut -c1-140)"
done
