#!/usr/bin/env python3
"""Prints the DESIGN 6.3 table (quick tier) from the evidence files of the last run."""
import json, glob, os
HERE = os.path.dirname(os.path.abspath(__file__))
print("| prop | engines | obligations (held / known finding) | solver queries | wall | tier |")
print("|---|---|---|---|---|---|")
for f in sorted(glob.glob(os.path.join(HERE, "evidence", "C*.json"))):
    d = json.load(open(f))
    cov = d.get("coverage", {})
    obs = cov.get("obligation_results") or []
    eng = sorted(set((o.get("engine") or "?").split(":")[0] for o in obs))
    held = sum(1 for o in obs if o.get("verdict") == "holds")
    known = sum(1 for o in obs if o.get("verdict") == "violated")
    q = cov.get("solver_queries") or sum(int(o.get("queries") or 0) for o in obs)
    wall = d.get("wall_s") or 0
    print("| %s | %s | %d (%d / %d) | %d | %s s | %s |" % (os.path.basename(f)[:-5], "+".join(eng), len(obs), held, known, q, int(wall) if wall else "?", d.get("tier", "?")))
