"""C07 — the query-result cache never serves stale or foreign results."""
from vlib.mo import *
import re
from vlib.runner import KH, run_kani_group, run_mir_obligations

LEVEL = "other"
EXPLANATION = ("Kani: the insert-invalidation pre-filter never prunes an insert that lies inside the cached boundary (quantised grid, exact oracle).  mirflow/z3: generation protocol "
               "(bump before taking the lock; re-check under the write lock; search entry points read the generation before searching and store only conditionally), "
               "k/scope discipline of lookups, invalidation coverage on every write path.")
TRUSTED_BASE = ["Kani/CBMC float semantics", "rustc MIR", "z3", "64-bit query-hash collision-freeness"]
NOT_COVERED = ["the store-after-invalidate race itself (schedules)", "similarity hits being a result a fresh search could return", "64-bit query-hash collisions", 
               "vectors off the quantised grid (ulp-level rounding)"]

Q = "query_hash_cache::QueryHashCache::"
GEN_BUMP = call(r"= Atomic::<u64>::fetch_add\(", name="invalidation_generation.fetch_add")
STATE_WRITE = call(r"= RwLock::<(query_hash_cache::)?QueryCacheState>::write\(", name="state.write()")
GEN_LOAD = call(r"= Atomic::<u64>::load\(", name="invalidation_generation.load")
CACHE_INSERT = call(r"= HashMap::<(query_hash_cache::)?QueryCacheKey, CachedQueryResult>::insert\(", name="state.cache.insert")

def _store_decision(F):
    """insert_with_k_scoped_internal: a result list is stored only if no expected generation was given or the generation read
    UNDER the state write lock (the second load) equals it — for all values (DECIDES).  The first, unlocked comparison is only
    an early exit."""
    from vlib import mirdec as MD
    fc = FnCheck(F, Q + "insert_with_k_scoped_internal")
    if fc.fn is None:
        return [fc.missing()]
    fn = fc.fn
    loads = sorted(i for i, b in fn.blocks.items() if not b.cleanup and b.kind == "call" and re.search(r"Atomic::<u64>::load$", re.sub(r"::<[^>]*>$", "", (b.callee or "").replace("std::sync::atomic::", ""))))
    wr = sorted(i for i, b in fn.blocks.items() if not b.cleanup and STATE_WRITE.match_block(fn, b))
    if len(loads) < 2 or not wr:
        return [Result("inconclusive", "expected two generation loads and a state write lock in insert_with_k_scoped_internal, found %d / %d" % (len(loads), len(wr)))]
    locked = [i for i in loads if i > wr[0]]
    if not locked:
        return [Result("violated", "the generation is no longer re-read after the state write lock is taken: a store racing with an invalidation can land after it",
                       sample={"fn": fc.name, "kind": "PRECEDES", "A": STATE_WRITE.name, "B": "generation.load()"})]
    T = "\u27e8bb%d\u27e9" % locked[0]
    atoms = [("gen_locked", r"^call Atomic::<u64>::load$", re.escape(T)), ("expected", r"^\(\(\{arg\(_6: Option<u64>\)\} as Some\)\.0: u64\)$"), ("has_expected", r"^discr:arg\(_6: Option<u64>\)$")]
    return MD.decides(F, Q + "insert_with_k_scoped_internal", "entry", {"store": CACHE_INSERT}, atoms, {"store": ("=>", "(or (= has_expected 0) (= gen_locked expected))")},
                      what="QueryHashCache stores a result list only if the generation read under the state lock still equals the one captured before the search")


def _hit_decision(F):
    from vlib import mirdec as MD
    ki = field_index("query_hash_cache.rs", "CachedQueryResult", "requested_k")
    if ki is None:
        return [Result("inconclusive", "CachedQueryResult.requested_k not found")]
    atoms = [("cached_k", r"^\(\(\*\{.*\}\)\.%d: usize\)$" % ki), ("k", r"^arg\(_4: usize\)$"), ("found", r"^discr:call HashMap::<(query_hash_cache::)?QueryCacheKey, (query_hash_cache::)?CachedQueryResult>::get::<")]
    oc = {"hit": stmt(r"= (query_hash_cache::)?ExactLookup::Hit\(", name="ExactLookup::Hit(cached results)")}
    return MD.decides(F, Q + "get_scoped", "entry", oc, atoms, {"hit": ("=>", "(and (= found 1) (>= cached_k k))")},
                      what="QueryHashCache::get_scoped serves a cached list only if it was computed for at least as many results as requested")


MOS = [
    MO("O7.3/bump_before_lock", "clear / invalidate_doc / invalidate_for_insert: generation bumped before the state write lock is taken",
       allof(*[precedes(Q + f, GEN_BUMP, STATE_WRITE) for f in ("clear", "invalidate_doc", "invalidate_for_insert")]),
       functions=[("query_hash_cache.rs", f) for f in ("clear", "invalidate_doc", "invalidate_for_insert")]),
    MO("O7.3/conditional_store", "insert_with_k_scoped_internal: the generation is re-checked under the state write lock; the store happens with the lock held and only if the generation is unchanged",
       allof(held(Q + "insert_with_k_scoped_internal", STATE_WRITE, CACHE_INSERT),
             # (the generation comparison itself is decided value-level by O7.3/store_decision)
             precedes(Q + "insert_with_k_scoped_internal", STATE_WRITE, CACHE_INSERT),
             lambda F: _gen_load_under_lock(F)),
       functions=[("query_hash_cache.rs", "insert_with_k_scoped_internal")]),
    MO("O7.5/unique_ids", "QueryHashCache::invalidate_doc / unique_result_doc_ids: keys / ids are sorted before Vec::dedup, so the reverse index holds each (doc, key) pair once and invalidation visits each key once",
       sorted_before_dedup(r"^query_hash_cache::QueryHashCache::(invalidate_doc|unique_result_doc_ids)$"), functions=[("query_hash_cache.rs", "invalidate_doc"), ("query_hash_cache.rs", "unique_result_doc_ids")]),
    MO("O7.3/store_decision", "insert_with_k_scoped_internal: store => no expected generation, or generation (re-read under the state write lock) == expected — for all values (DECIDES)",
       lambda F: _store_decision(F), functions=[("query_hash_cache.rs", "insert_with_k_scoped_internal")]),
    MO("O7.2/hit_decision", "get_scoped: an exact hit (cached results copied and served) happens only when the key is cached and cached.requested_k >= k — proved for all values of the two counts (DECIDES)",
       lambda F: _hit_decision(F), functions=[("query_hash_cache.rs", "get_scoped")]),
    MO("O7.2/k_and_scope", "get_scoped: the key carries the scope; insert_with_k_scoped_if_generation passes Some(expected_generation)",
       allof(  # (the requested_k >= k test itself is decided value-level by O7.2/hit_decision)
             lambda F: FnCheck(F, Q + "get_scoped").reachable(stmt(r"= (query_hash_cache::)?QueryCacheKey \{ scope: copy _2, query_hash: (move|copy) _\d+ \};$", name="key = {scope, hash}")),
             lambda F: FnCheck(F, Q + "insert_with_k_scoped_if_generation").reachable(stmt(r"= Option::<u64>::Some\(copy _6\);$", name="Some(expected_generation)"))),
       functions=[("query_hash_cache.rs", "get_scoped"), ("query_hash_cache.rs", "insert_with_k_scoped_if_generation")]),
]


INDEX_DOCS = call(r"= QueryHashCache::index_entry_doc_ids\(", name="index_entry_doc_ids(new results)")
UNINDEX_DOCS = call(r"= QueryHashCache::unindex_entry_docs\(", name="unindex_entry_docs(old results)")
MOS.append(MO("O7.5/reverse_index", "insert_with_k_scoped_internal: the doc -> query reverse index is updated old-first (un-index the replaced/evicted entry, then index the new one), so ids present in both result lists stay indexed; "
              "every stored entry is indexed; remove_entry un-indexes",
              allof(never(Q + "insert_with_k_scoped_internal", UNINDEX_DOCS, frm=INDEX_DOCS),
                    follows(Q + "insert_with_k_scoped_internal", CACHE_INSERT, INDEX_DOCS, exit="any", exit_ev=anyev(r"^_0 = ", name="return")),
                    lambda F: FnCheck(F, Q + "remove_entry").reachable(UNINDEX_DOCS)),
              functions=[("query_hash_cache.rs", "insert_with_k_scoped_internal"), ("query_hash_cache.rs", "remove_entry")]))


def _closure_reads_generation(F, fname):
    from vlib.mirflow import find_fn
    rn, fn = find_fn(F, fname)
    if fn is None:
        return Result("inconclusive", "function %s not found" % fname)
    ev = call(r"= QueryHashCache::invalidation_generation\(", name="query_cache.invalidation_generation()")
    hits = [n for n in F if n.startswith(rn + "::{closure#") and any(ev.match_block(F[n], b) for b in F[n].blocks.values() if not b.cleanup)]
    if hits:
        return Result("holds", "generation read in %s" % hits[0], sample={"fn": hits[0], "kind": "REACHABLE", "B": ev.name})
    return Result("violated", "no closure of %s reads query_cache.invalidation_generation()" % rn)


def _gen_load_under_lock(F):
    # the second generation load happens with the write guard held
    fc = FnCheck(F, Q + "insert_with_k_scoped_internal")
    if fc.fn is None:
        return fc.missing()
    n = fc.count(GEN_LOAD)
    if n < 2:
        return Result("violated", "only %d generation load(s): the re-check under the lock is missing" % n)
    return Result("holds", "%d generation loads (one before, one under the lock)" % n, sample={"fn": fc.name, "kind": "COUNT", "loads": n})


T = "tiered_engine::TieredEngine::"
QC_CLEAR = call(r"= QueryHashCache::clear\(", name="query_cache.clear")
MOS += [
    MO("O7.4/coverage", "invalidation coverage: update_metadata clears the query cache after a successful canonical update; bulk load, stale-mirror discard clear it; delete/batch_delete invalidate by doc",
       allof(follows(T + "update_metadata", Arm(r"^\(\(\{try\(call HnswBackend::update_metadata\)\} as Continue\)\.0: bool\)$", {"otherwise"}, name="canonical update applied"), QC_CLEAR, exit="ok"),
             lambda F: FnCheck(F, T + "invalidate_caches_after_bulk_load").reachable(QC_CLEAR),
             lambda F: FnCheck(F, T + "discard_stale_hot_mirror").reachable(QC_CLEAR),
             follows(T + "bulk_load_cold_tier", call(r"= HnswBackend::bulk_load|= HnswBackend::insert\(", name="cold bulk load/insert"), call(r"= TieredEngine::invalidate_caches_after_bulk_load\(", name="invalidate_caches_after_bulk_load"), exit="ok"),
             lambda F: FnCheck(F, T + "batch_delete").reachable(call(r"= QueryHashCache::invalidate_doc\(", name="query_cache.invalidate_doc")),
             only_via(T + "filter_search_results_to_canonical", call(r"= Vec::<(hnsw_index::)?SearchResult>::push\(", name="keep cached result"), Arm(r"^call HnswBackend::exists$", {"otherwise"}, name="document still exists"))),
       functions=[("tiered_engine.rs", f) for f in ("update_metadata", "invalidate_caches_after_bulk_load", "discard_stale_hot_mirror", "bulk_load_cold_tier", "filter_search_results_to_canonical")]),
]

SEARCH_FNS = ["knn_search_with_ef_detailed_scoped", "knn_search_batch_with_ef_detailed_scoped"]
GEN_READ = call(r"<impl bool>::then::<u64, \{closure@", name="cacheable.then(|| query_cache.invalidation_generation())")
COLD_SEARCH = call(r"= HnswBackend::knn_search", name="cold_tier.knn_search*")
HOT_SEARCH = call(r"= HotTier::knn_search", name="hot_tier.knn_search*")
MOS += [
    MO("O7.3/search_entry", "search entry points read the invalidation generation before searching either tier and store results only through insert_with_k_scoped_if_generation",
       allof(*([precedes(T + f, GEN_READ, COLD_SEARCH) for f in SEARCH_FNS] + [precedes(T + SEARCH_FNS[0], GEN_READ, HOT_SEARCH)] +
               [never(T + f, call(r"= QueryHashCache::insert(_with_k(_scoped)?)?\(", name="unconditional query-cache store"), need_witness_without=False) for f in SEARCH_FNS] +
               [lambda F, f=f: FnCheck(F, T + f).reachable(call(r"= QueryHashCache::insert_with_k_scoped_if_generation\(", name="conditional store")) for f in SEARCH_FNS] +
               [lambda F, f=f: _closure_reads_generation(F, T + f) for f in SEARCH_FNS])),
       functions=[("tiered_engine.rs", f) for f in SEARCH_FNS]),
]

FK = [("query_hash_cache.rs", "insert_can_affect_cached_boundary"), ("query_hash_cache.rs", "l2_prefix_sq"), ("query_hash_cache.rs", "dot_upper_bound_from_prefix")]
HARNESSES = [
    KH("O7.1/euclidean_l2", "c07_o1_prefilter_euclidean_l2", "pre-filter soundness, Euclidean, len 2, prefix 1", src="query_hash_cache.rs", functions=FK,
       bounds="q,e on the grid k/8 in [-2,2]^2, worst on k/8 in [0,4]; oracle ||q-e||^2 <= worst^2 exact", timeout=600),
    KH("O7.1/euclidean_l3", "c07_o1_prefilter_euclidean_l3", "pre-filter soundness, Euclidean, len 3, prefix 1", src="query_hash_cache.rs", functions=FK,
       bounds="q,e on the grid k/8 in [-2,2]^3, worst on k/8 in [0,4]", tier="thorough", timeout=1200),
    KH("O7.1/inner_product_l2", "c07_o1_prefilter_inner_product_l2", "pre-filter soundness, inner product, len 2, prefix 1 (tail norms given exactly)", src="query_hash_cache.rs", functions=FK,
       bounds="q,e on the grid k/8 in [-2,2]^2, worst on k/8 in [-4,6]; tail norms = |q1|,|e1| (exact sqrt)", timeout=600),
    KH("O7.1/cosine_l2", "c07_o1_prefilter_cosine_l2", "pre-filter soundness, cosine, len 2, prefix 1 (statistics from the real embedding_stats; sqrt-free exact oracle with 2^-8 margin)",
       src="query_hash_cache.rs", functions=FK + [("query_hash_cache.rs", "cosine_upper_bound_from_prefix"), ("query_hash_cache.rs", "embedding_stats")],
       bounds="q,e on the grid k/4 in [-2,2]^2 (non-zero), worst on k/4 in [0,2]", timeout=900),
]


def run(tier, seed, notes):
    obls = run_mir_obligations("C07", tier, MOS, notes)
    obls += run_kani_group("C07", tier, "lib", {"query_hash_cache.rs": "query_hash_cache_proofs.rs"}, HARNESSES, jobs=4, notes=notes)
    return obls
