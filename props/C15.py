"""C15 — every request gets an answer; invalid input refused without effect."""
from vlib.runner import KH, run_kani_group

ENGINES = "K"
LEVEL = "other"
EXPLANATION = "Kani/CBMC bounded verdicts over the real request validators with symbolic floats/ints (all 2^32 bit patterns per lane); see obligation_results."
TRUSTED_BASE = ["Kani 0.68 MIR->goto translation", "CBMC 6.11 + CaDiCaL", "stubs: std::fmt::format -> empty String, RandomState::new -> fixed keys"]
NOT_COVERED = ["liveness of the async server, panic containment", "oversized batches through real streams", "post-restart census",
               "embedding lengths 4..4095 (lengths 0..3 symbolic, 4096/4097 concrete)"]
ASSUMPTIONS = ["embedding length <= 3 (symbolic) or in {4096,4097} (concrete)"]
F = [("api_validation.rs", "validate_search_request"), ("api_validation.rs", "validate_insert_request")]
HARNESSES = [
] + [
    KH("O15.1/" + v, "c15_o1_validate_search_" + v, "validate_search_request (%s): Ok <=> non-empty & all finite & 1<=k<=1000 & ef<=10000; k<=search_k<=10000; ef override" % v,
       functions=F, bounds="embedding len 0..3 symbolic f32, k/ef any u32; namespace/filter presence concrete per instance: " + v)
    for v in ("plain", "ns", "filter", "ns_filter")
] + [
    KH("O15.2", "c15_o2_validate_insert", "validate_insert_request: Ok <=> doc_id>=1 & 1<=len & all finite",
       functions=F, bounds="embedding len 0..3 symbolic f32, doc_id any u64"),
    KH("O15.2/dim", "c15_o2_insert_dim_limit", "validate_insert_request: length limit exactly 4096", functions=F,
       bounds="len in {4096,4097}, concrete finite values, unwind 4100", tier="thorough", timeout=900),
]


def run(tier, seed, notes):
    return run_kani_group("C15", tier, "lib", {"api_validation.rs": "api_validation_proofs.rs"}, HARNESSES, jobs=6, notes=notes)
