"""C15 — every request gets an answer; invalid input refused without effect."""
import re
from vlib.mo import *
from vlib.runner import KH, run_kani_group, run_mir_obligations

LEVEL = "other"
TECHNIQUE = "Kani/CBMC bounded model checking of the real validators + z3 value slices over MIR def-use (nonzero divisors, return bounds by induction) + MIR path obligations decided by z3"
EXPLANATION = ("Kani/CBMC over the real request validators with symbolic floats/ints (all 2^32 bit patterns per lane); z3 value slices over the MIR of estimate_selectivity (no divisor can be zero, every factor >= 1, by induction over the recursion); "
               "mirflow: the engine write path runs the index acceptance test before the WAL append.")
TRUSTED_BASE = ["Kani 0.68 MIR->goto translation", "CBMC 6.11 + CaDiCaL", "stubs: std::fmt::format -> empty String, RandomState::new -> fixed keys"]
NOT_COVERED = ["liveness of the async server, panic containment", "oversized batches through real streams", "post-restart census",
               "embedding lengths 4..4095 (lengths 0..3 symbolic, 4096/4097 concrete)", "filter trees deeper than 3 levels or with more than 2 children per node"]
ASSUMPTIONS = ["embedding length <= 3 (symbolic) or in {4096,4097} (concrete)"]
F = [("api_validation.rs", "validate_search_request"), ("api_validation.rs", "validate_insert_request")]
HARNESSES = [
] + [
    KH("O15.1/" + v, "c15_o1_validate_search_" + v, "validate_search_request (%s): Ok <=> non-empty & all finite & 1<=k<=1000 & ef<=10000; k<=search_k<=10000; ef override" % v,
       functions=F, bounds="embedding len 0..3 symbolic f32, k/ef any u32; namespace/filter presence concrete per instance: " + v)
    for v in ("plain", "ns", "filter", "ns_filter")
] + [
    KH("O15.2", "c15_o2_validate_insert", "validate_insert_request: Ok <=> doc_id>=1 & 1<=len & all finite",
       functions=F, bounds="embedding len 0..3 symbolic f32, doc_id any u64"),
]
# O15.2/dim (Kani, lengths 4096/4097 with unwind 4100) never finished (2400 s time-out in the thorough tier) and was removed;
# the length limit is decided for all lengths by the DECIDES obligation O15.5/insert_decision below.
# O15.3 Kani rows (filter trees built from Vec/Box/String: leaf, and, or, not_*, and_or) were removed from both tiers: none
# reached a verdict (leaf > 10 min in isolation; six rows ran 47 min in the thorough tier without one finishing).  The
# obligation is decided by the z3 value slice O15.3/oversampling_values below; the harness source stays in
# harness/adaptive_oversampling_proofs.rs for reference.



H = "hnsw_backend::HnswBackend::"
def batch_limits(F):
    """BatchDelete (by ids) and BulkQuery: the engine is reached only with at most MAX_BATCH_SIZE ids (DECIDES over the id count)."""
    from vlib import mirdec as MD
    RPCN = lambda n: "<KyroDBServiceImpl as KyroDbService>::%s::{closure#0}::{closure#0}" % n
    out = []
    atoms = [("n", r"^call Vec::<u64>::len$"), ("max", r"^const MAX_BATCH_SIZE$")]
    out += MD.decides(F, RPCN("batch_delete"), "entry", {"engine": call(r"= TieredEngine::batch_delete\(", name="engine.batch_delete(ids)")}, atoms, {"engine": ("=>", "(<= n max)")},
                      what="BatchDelete by ids reaches the engine only with at most MAX_BATCH_SIZE ids")
    out += MD.decides(F, RPCN("bulk_query"), "entry", {"engine": call(r"= TieredEngine::bulk_query_with_source\(", name="engine.bulk_query_with_source")}, atoms, {"engine": ("=>", "(<= n max)")},
                      what="BulkQuery reaches the engine only with at most MAX_BATCH_SIZE ids")
    return out


def stream_item_checks(F):
    """The streaming write RPCs bypass validate_insert_request and check each item inline.  Decided for every doc_id, length and
    running count (DECIDES over the server binary's MIR, one region per received item, from the per-item rate-limit decision on):
    BulkInsert reaches engine.insert, and BulkLoadHnsw queues the item, only if doc_id >= MIN_DOC_ID, the embedding is non-empty
    and at most MAX_EMBEDDING_DIM long, the tenant-local id maps (map_doc_id -> Ok) and the running count is inside the
    stream's cap; Insert reaches the engine only after validate_insert_request -> Ok and map_doc_id -> Ok.
    (Non-finite lanes are refused below, by the engine: O15.4.)"""
    from vlib import mirdec as MD
    RPCN = lambda n: "<KyroDBServiceImpl as KyroDbService>::%s::{closure#0}::{closure#0}" % n
    ITEM = Arm(r"^discr\(try\(call KyroDBServiceImpl::enforce_rate_limit\)\)$", {"0"}, name="per-item enforce_rate_limit()? -> Ok", nth=1)
    common = [("doc_id", r"InsertRequest\)\}\.\d+: u64\)$"), ("min_id", r"^const (kyrodb_engine::api_validation::|api_validation::)?MIN_DOC_ID$"), ("empty", r"^call Vec::<f32>::is_empty$"),
              ("len", r"^call Vec::<f32>::len$"), ("max_dim", r"^const (kyrodb_engine::api_validation::|api_validation::)?MAX_EMBEDDING_DIM$"), ("map_err", r"^discr:call KyroDBServiceImpl::map_doc_id$")]
    NEXT_ITEM = call(r"async fn body of Streaming<.*>::message\(\)\} as .*Future>::poll\(", name="stream.message().await (next item)")
    out = []
    out += MD.decides(F, RPCN("bulk_insert"), ITEM, {"engine": call(r"= TieredEngine::insert\(", name="engine.insert(item)")},
                      common + [("count", r"as variant#\d+\)\.\d+: u64\)$"), ("max_batch", r"^const MAX_BATCH_SIZE$"), ("quota_err", r"^discr:call KyroDBServiceImpl::enforce_vector_quota$")],
                      {"engine": ("=>", "(and (>= doc_id min_id) (not empty) (<= len max_dim) (= map_err 0) (= quota_err 0) (<= count max_batch))")},
                      declare=("empty",), stop=NEXT_ITEM, what="BulkInsert hands an item to the engine only inside the documented limits")
    out += MD.decides(F, RPCN("bulk_load_hnsw"), ITEM, {"queue": call(r"= Vec::<\(u64, Vec<f32>, HashMap<.*String, .*String>\)>::push\(", name="documents.push(item)")},
                      common + [("count", r"as variant#\d+\)\.\d+: u64\)$"), ("max_total", r"^const MAX_TOTAL_BULK_LOAD_DOCUMENTS$")],
                      {"queue": ("=>", "(and (>= doc_id min_id) (not empty) (<= len max_dim) (= map_err 0) (<= count max_total))")},
                      declare=("empty",), stop=NEXT_ITEM, what="BulkLoadHnsw queues an item for loading only inside the documented limits")
    return out


def bulk_load_every_item(F):
    """TieredEngine::bulk_load_cold_tier (behind BulkLoadHnsw): every item of the batch is handed to HnswBackend::insert before
    the next one is taken (no item is dropped or merged away on the strength of a *later* item that may yet be refused), the
    `loaded` counter moves only on the insert's Ok arm and `failed` only on its Err arm."""
    f = "tiered_engine::TieredEngine::bulk_load_cold_tier"
    fc = FnCheck(F, f)
    if fc.fn is None:
        return [fc.missing()]
    fn = fc.fn
    ITEMS = r"(std::vec::)?IntoIter<\(u64, Vec<f32>, HashMap<(std::string::)?String, (std::string::)?String>\)>"
    NEXT = call(r"= <(std::iter::Enumerate<)?" + ITEMS + r">? as Iterator>::next\(", name="next item of the batch")
    ITEM = Arm(r"^discr\(call <(Enumerate<)?IntoIter<\(u64, Vec<f32>, HashMap<String, String>\)>>? as Iterator>::next\)$", {"1"}, name="an item was taken")
    INS = call(r"= HnswBackend::insert\(", name="cold_tier.insert(item)")
    INS_OK = Arm(r"^discr\(call HnswBackend::insert\)$", {"0"}, name="cold_tier.insert -> Ok")
    INS_ERR = Arm(r"^discr\(call HnswBackend::insert\)$", {"1"}, name="cold_tier.insert -> Err")
    out = [fc.follows(ITEM, INS, exit="any", exit_ev=NEXT), fc.follows(ITEM, INS, exit="return")]
    # the two counters: `x = Add(copy x, const 1_u64)` on locals whose debug names are loaded / failed
    inv = {v: k for k, v in fn.debug.items()}
    for nm, arm in (("loaded", INS_OK), ("failed", INS_ERR)):
        loc = fn.debug.get(nm)
        if not loc:
            out.append(Result("inconclusive", "counter `%s` not found in bulk_load_cold_tier" % nm))
            continue
        BUMP = stmt(r"^%s = Add\(copy %s, const 1_u64\);$" % (re.escape(loc), re.escape(loc)), name="%s += 1" % nm)
        out.append(fc.only_via(BUMP, arm))
    return out


def _c14_accounting(F):
    import props.C14 as C14
    out = []
    for c in (C14.insert_accounting("insert"), C14.insert_accounting("bulk_insert"), C14.bulk_load_accounting):
        r = c(F)
        out.extend(r if isinstance(r, list) else [r])
    return out


def insert_decision(F):
    """validate_insert_request: Ok <=> doc_id >= MIN_DOC_ID and the embedding is non-empty, at most MAX_EMBEDDING_DIM long and all
    finite — the whole decision, for every value of doc_id and of the length (DECIDES; the emptiness and finiteness tests are
    opaque atoms here and value-checked by Kani O15.2)."""
    from vlib import mirdec as MD
    atoms = [("doc_id", r"InsertRequest\)\}\)\.\d+: u64\)$"), ("min_id", r"^const (api_validation::)?MIN_DOC_ID$"), ("empty", r"^call Vec::<f32>::is_empty$"),
             ("len", r"^call Vec::<f32>::len$"), ("max_dim", r"^const (api_validation::)?MAX_EMBEDDING_DIM$"), ("non_finite", r"^call <std::slice::Iter<'_, f32> as Iterator>::any::<")]
    OKI = stmt(r"^_0 = Result::<\(\), String>::Ok\(", name="return Ok(())")
    return MD.decides(F, "api_validation::validate_insert_request", "entry", {"ok": OKI}, atoms,
                      {"ok": "(and (>= doc_id min_id) (not empty) (<= len max_dim) (not non_finite))"}, declare=("empty", "non_finite"),
                      what="validate_insert_request accepts exactly the requests with doc_id >= MIN_DOC_ID and a non-empty, finite embedding of at most MAX_EMBEDDING_DIM lanes")


MOS = [
    MO("O15.6/batch_limits", "BatchDelete (ids) / BulkQuery: engine call => id count <= MAX_BATCH_SIZE — for every count (DECIDES over the server binary's MIR)", batch_limits,
       functions=[("bin/kyrodb_server.rs", "batch_delete"), ("bin/kyrodb_server.rs", "bulk_query")], target="kyrodb_server"),
    MO("O15.7/stream_item_checks", "BulkInsert / BulkLoadHnsw: an item reaches the engine / the load queue only if doc_id >= MIN_DOC_ID, 0 < len <= MAX_EMBEDDING_DIM, map_doc_id -> Ok and the running count is within the stream cap — for every value (DECIDES, server binary)",
       stream_item_checks, functions=[("bin/kyrodb_server.rs", "bulk_insert"), ("bin/kyrodb_server.rs", "bulk_load_hnsw")], target="kyrodb_server"),
    MO("O15.8/bulk_load_every_item", "TieredEngine::bulk_load_cold_tier: every item of a batch reaches HnswBackend::insert before the next is taken; `loaded` / `failed` move only on the insert's Ok / Err arm (a refused item cannot erase or stand in for another item of the stream)",
       bulk_load_every_item, functions=[("tiered_engine.rs", "bulk_load_cold_tier")]),
    MO("O15.9/refused_item_accounting", "a refused write leaves no reservation behind: Insert / BulkInsert give the slot of a failed new document back, BulkLoadHnsw releases reserved - (new ids that now exist) (same obligations as C14 O14.1)",
       lambda F: _c14_accounting(F), functions=[("bin/kyrodb_server.rs", n) for n in ("insert", "bulk_insert", "bulk_load_hnsw")], target="kyrodb_server"),
    MO("O15.5/insert_decision", "validate_insert_request: Ok <=> doc_id >= MIN_DOC_ID, embedding non-empty, length <= MAX_EMBEDDING_DIM, all lanes finite — whole decision for every doc_id and length (DECIDES)",
       insert_decision, functions=[("api_validation.rs", "validate_insert_request")]),
    MO("O15.4/engine_refusal", "every engine write path goes through HnswBackend::insert, which runs normalize_in_place_if_needed and the index's own acceptance test (finite lanes, norm band) before the WAL append "
       "(the value-level statement 'accepted by the pre-flight => accepted by the index' is Kani obligation O3.1 of C03)",
       allof(only_via_call(H + "insert", WAL_APPEND, call(r"= (hnsw_backend::)?normalize_in_place_if_needed\(", name="normalize_in_place_if_needed"),
                           Arm(r"^discr\(try\(call (hnsw_backend::)?normalize_in_place_if_needed\)\)$", {"0"}, name="normalize_in_place_if_needed()? -> Ok")),
             only_via_call(H + "insert", WAL_APPEND, call(r"= HnswVectorIndex::validate_vector\(", name="HnswVectorIndex::validate_vector"),
                           Arm(r"^discr\(try\(call HnswVectorIndex::validate_vector\)\)$", {"0"}, name="index.validate_vector()? -> Ok"),
                           why="a vector the index will refuse (e.g. all-zero after an overflowing normalisation) is logged first; the compensating Delete destroys the previous version after restart"),
             only_via("hnsw_index::HnswVectorIndex::validate_vector", stmt(r"^_0 = Result::<\(\), anyhow::Error>::Ok\(", name="return Ok(())"),
                      Arm(r"^call <std::slice::Iter<'_, f32> as Iterator>::any::<", {"0"}, name="no non-finite lane")),
             only_via("tiered_engine::TieredEngine::insert", call(r"= HotTier::insert_with_coherence\(", name="hot mirror"), Arm(r"^discr\(try\(call HnswBackend::insert\)\)$", {"0"}, name="cold_tier.insert()? -> Ok"))),
       functions=[("hnsw_backend.rs", "insert"), ("hnsw_index.rs", "validate_vector"), ("tiered_engine.rs", "insert")], role="preflight-weaker-than-index"),
]


def _oversampling_values(F):
    from vlib import mirval
    return mirval.check_function(F, "adaptive_oversampling::estimate_selectivity", returns_ge=1)


MOS.append(MO("O15.3/oversampling_values", "estimate_selectivity: no divisor can be zero and every returned factor is >= 1 (induction over the recursion), decided by z3 on the MIR def-use slice of each divisor / return value; "
              "calculate_oversampling_factor and validate_search_request therefore cannot panic on any filter tree",
              _oversampling_values, functions=[("adaptive_oversampling.rs", "estimate_selectivity")]))


def run(tier, seed, notes):
    return run_mir_obligations("C15", tier, MOS, notes) + run_kani_group("C15", tier, "lib", {"api_validation.rs": "api_validation_proofs.rs", "adaptive_oversampling.rs": "adaptive_oversampling_proofs.rs"}, HARNESSES, jobs=6, notes=notes)
