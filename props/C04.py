"""C04 — lookups by id return the canonical latest version whatever the caches hold."""
from vlib.mo import *
from vlib.runner import KH, run_kani_group, run_mir_obligations

LEVEL = "other"
EXPLANATION = ("mirflow/z3 over TieredEngine: Match is produced only when the canonical token exists, equals the mirrored token and the payload digest matches; every cache/mirror hit on every "
               "read path is served only through the Match arm of canonical_vector_state; metadata/existence come from the cold tier; write paths invalidate/mirror in the stated order.")
TRUSTED_BASE = ["rustc MIR", "z3", "callee summaries by name (cold_tier.*, hot_tier.*, cache_strategy.*)", "128-bit digest collision-freeness"]
NOT_COVERED = ["histories", "that equal digests imply equal vectors (hash, trusted)", "cache strategy internals (learned predictor, semantic adapter)", "emergency-drain histories"]

T = "tiered_engine::TieredEngine::"
CANON = call(r"= TieredEngine::canonical_vector_state\(", name="canonical_vector_state")
CANON_MATCH = lambda nth=None: Arm(r"^discr\(call TieredEngine::canonical_vector_state\)$", {"0"}, name="canonical_vector_state == Match", nth=nth)
SOME_VEC_TIER = lambda tier: stmt(r"= (tiered_engine::)?PointQueryTier::%s;$" % tier, name="serve from " + tier)

def token_compared_in_full(F):
    """Match must be guarded by a comparison of the *whole* token (version and digest): either the
    derived PartialEq on VectorCoherenceToken, or field comparisons that cover field .0 (version) and
    field .1 (digest).  A guard that compares only part of the token is a violation."""
    from vlib.mirflow import origin as _o
    import re as _re
    fc = FnCheck(F, T + "canonical_vector_state")
    if fc.fn is None:
        return fc.missing()
    MATCH = stmt(r"^_0 = (tiered_engine::)?CanonicalVectorState::Match;$", name="return Match")
    whole = Arm(r"^call <VectorCoherenceToken as PartialEq>::(ne|eq)$", {"0", "otherwise"})
    if whole.switches(fc.fn):
        neq = Arm(r"^call <VectorCoherenceToken as PartialEq>::ne$", {"0"}, name="tokens equal (ne == false)")
        eq = Arm(r"^call <VectorCoherenceToken as PartialEq>::eq$", {"otherwise"}, name="tokens equal (eq == true)")
        return fc.only_via(MATCH, neq if neq.switches(fc.fn) else eq)
    # field-wise comparison: collect the token fields mentioned by Ne/Eq guards that Match depends on
    fields = set()
    guards = []
    for b in fc.fn.blocks.values():
        if b.cleanup or b.kind != "switch":
            continue
        o = _o(fc.fn, b.switch_local)
        m = _re.match(r"^(Ne|Eq)\(.*VectorCoherenceToken\)\}\)?\.(\d+): [^)]*\), \(\{arg\(_\d+: VectorCoherenceToken\)\}\.(\d+): ", o)
        if m and m.group(2) == m.group(3):
            arm = Arm("^" + _re.escape(o) + "$", {"0"} if m.group(1) == "Ne" else {"otherwise"}, name="token field .%s equal" % m.group(2))
            r = fc.only_via(MATCH, arm)
            if r.verdict == "holds":
                fields.add(m.group(2))
                guards.append(r)
    q = sum(g.queries for g in guards)
    sec = sum(g.seconds for g in guards)
    if fields >= {"0", "1"}:
        return Result("holds", "Match guarded by field-wise comparison of version and digest", queries=q, seconds=sec, sample={"fn": fc.name, "kind": "ONLY_VIA", "fields": sorted(fields)})
    r = fc.reachable(MATCH)
    if r.verdict == "holds":
        return Result("violated", "Match is reachable after comparing only token field(s) %s with the canonical token (version=.0, digest=.1): a stale copy with an equal %s is served" % (
            sorted(fields) or "none", "version" if fields == {"0"} else "part"), queries=q + r.queries, seconds=sec + r.seconds,
            sample={"fn": fc.name, "kind": "ONLY_VIA", "fields_compared": sorted(fields)})
    return Result("inconclusive", "Match not reachable / pattern not matched")



def drain_readonly(F):
    f = T + "reconcile_drained_hot_tier_documents"
    fc = FnCheck(F, f)
    if fc.fn is None:
        return [fc.missing()]
    out = []
    for name, rx in (("cold_tier.update_metadata", r"= HnswBackend::update_metadata\("), ("cold_tier.delete", r"= HnswBackend::(delete|batch_delete)\(")):
        ev = call(rx, name=name)
        if fc.count(ev) == 0:
            out.append(Result("holds", "no %s in the drain reconciliation" % name, sample={"fn": fc.name, "kind": "NEVER", "B": name}))
        else:
            r = fc.reachable(ev)
            out.append(Result("violated" if r.verdict == "holds" else "inconclusive", "a drain calls %s: evicting a mirror changes the canonical record (a mirror left stale by a bulk load overwrites newer canonical state, "
                              "and the overwrite is logged)" % name, queries=r.queries, seconds=r.seconds, sample={"fn": fc.name, "kind": "NEVER", "B": name}))
    INS = call(r"= HnswBackend::insert\(", name="cold_tier.insert (repair)")
    if fc.count(INS) > 0:
        # with both canonical parts present (discriminants of the two Option refs == Some) the repair insert is unreachable
        BOTH_E = Arm(r"^discr\(\(\{\(move _\d+, move _\d+\)\}\.0: Option<&\(Vec<f32>, (\w+::)?VectorCoherenceToken\)>\)\)$", {"1"}, name="canonical vector present")
        BOTH_M = Arm(r"^discr\(\(\{\(move _\d+, move _\d+\)\}\.1: Option<&HashMap<String, String>>\)\)$", {"1"}, name="canonical metadata present")
        try:
            out.append(fc.never(INS, assume=[BOTH_E, BOTH_M]))
        except PatternError as e:
            out.append(Result("inconclusive", "pattern: %s" % e))
    return out


MOS = [
    MO("O4.1", "canonical_vector_state: Match only when the canonical token exists, is equal to the mirrored token, and the payload matches its digest",
       allof(only_via(T + "canonical_vector_state", stmt(r"^_0 = (tiered_engine::)?CanonicalVectorState::Match;$", name="return Match"), Arm(r"^discr\(call HnswBackend::current_coherence_token\)$", {"1"}, name="canonical token is Some")),
             token_compared_in_full,
             only_via(T + "canonical_vector_state", stmt(r"^_0 = (tiered_engine::)?CanonicalVectorState::Match;$", name="return Match"), Arm(r"^call (coherence::)?embedding_matches_token$", {"otherwise"}, name="payload matches digest"))),
       functions=[("tiered_engine.rs", "canonical_vector_state")]),
    MO("O4.2/query_with_source", "query_with_source: a cache hit / hot-tier hit is served only through canonical_vector_state == Match; every hit is validated",
       allof(only_via(T + "query_with_source", SOME_VEC_TIER("Cache"), CANON_MATCH(0)),
             only_via(T + "query_with_source", SOME_VEC_TIER("HotTier"), CANON_MATCH(1)),
             follows(T + "query_with_source", Arm(r"^discr\(call <dyn cache_strategy::CacheStrategy as cache_strategy::CacheStrategy>::get_cached\)$", {"1"}, name="cache hit"), CANON, exit="any"),
             follows(T + "query_with_source", Arm(r"^discr\(call HotTier::get_with_coherence\)$", {"1"}, name="hot-tier hit", nth=0), CANON, exit="any"),
             only_via(T + "query_with_source", call(r"as cache_strategy::CacheStrategy>::invalidate\(|= TieredEngine::invalidate_stale_cache_entry\(", name="scrub stale cache entry"),
                      Arm(r"^discr\(call TieredEngine::canonical_vector_state\)$", {"1", "2", "3"}, name="not Match", nth=0))),
       functions=[("tiered_engine.rs", "query_with_source")]),
    MO("O4.2/cache_aware", "get_embedding_cache_aware: cached value returned only when canonical_vector_state == Match; hot mirror likewise; otherwise the cold tier answers",
       allof(follows(T + "get_embedding_cache_aware", Arm(r"^discr\(call <dyn cache_strategy::CacheStrategy as cache_strategy::CacheStrategy>::peek_cached\)$", {"1"}, name="cache hit"), CANON, exit="any"),
             follows(T + "get_embedding_cache_aware", Arm(r"^discr\(call HotTier::get_with_coherence\)$", {"1"}, name="hot-tier hit", nth=0), CANON, exit="any"),
             never(T + "get_embedding_cache_aware", stmt(r"^_0 = Option::<Vec<f32>>::Some\(", name="return Some(mirrored)"),
                   cut=[Arm(r"^call <CanonicalVectorState as PartialEq>::eq$", {"otherwise"}, name="cache state == Match"), CANON_MATCH()])),
       functions=[("tiered_engine.rs", "get_embedding_cache_aware")]),
    MO("O4.2/with_metadata", "get_document_with_metadata: metadata from the cold tier; a hot-tier vector served only on Match; otherwise the cold vector",
       allof(precedes(T + "get_document_with_metadata", call(r"= HnswBackend::fetch_metadata\(", name="cold_tier.fetch_metadata"), call(r"= HotTier::get_with_coherence\(", name="hot_tier.get_with_coherence")),
             follows(T + "get_document_with_metadata", Arm(r"^discr\(call HotTier::get_with_coherence\)$", {"1"}, name="hot-tier hit", nth=0), CANON, exit="any"),
             never(T + "get_document_with_metadata", stmt(r"^_0 = Option::<\(Vec<f32>, HashMap<String, String>\)>::Some\(", name="return Some"),
                   cut=[CANON_MATCH(), Arm(r"^discr\(call HnswBackend::fetch_document_with_coherence\)$", {"1"}, name="cold vector present")]),
             never(T + "get_document_with_metadata", call(r"= HotTier::get_metadata\(", name="hot_tier.get_metadata"), need_witness_without=False)),
       functions=[("tiered_engine.rs", "get_document_with_metadata")]),
    MO("O4.2/bulk", "bulk_query_with_source: every hot mirror hit goes through canonical_vector_state; served metadata comes from cold_tier.fetch_metadata",
       allof(lambda F: FnCheck(F, T + "bulk_query_with_source").reachable(CANON),
             follows(T + "bulk_query_with_source", call(r"= HotTier::bulk_fetch_with_coherence\(", name="hot_tier.bulk_fetch_with_coherence"), CANON, exit="any",
                     assume=[Arm(r"^discr\(\(\(\(\{call <std::iter::Enumerate<IntoIter<Option<\(Vec<f32>, HashMap<String, String>, VectorCoherenceToken\)>>> as Iterator>::next\} as Some\)", {"1"}, name="mirror entry present", nth=0),
                             Arm(r"^discr\(call <std::iter::Enumerate<IntoIter<Option<\(Vec<f32>, HashMap<String, String>, VectorCoherenceToken\)>>> as Iterator>::next\)$", {"1"}, name="at least one id")]),
             only_via(T + "bulk_query_with_source", call(r"= HnswBackend::fetch_metadata\(", name="cold_tier.fetch_metadata (for a mirror hit)"), CANON_MATCH())),
       functions=[("tiered_engine.rs", "bulk_query_with_source")]),
    MO("O4.2/hot_knn_filter", "filter_hot_knn_results_to_canonical: a hot candidate survives only on Match",
       allof(only_via(T + "filter_hot_knn_results_to_canonical::{closure#0}", stmt(r"^_0 = Option::<\(u64, f32\)>::Some\(", name="keep candidate"), CANON_MATCH()),
             only_via(T + "filter_hot_knn_results_to_canonical::{closure#0}", CANON, Arm(r"^discr\(call HotTier::peek_with_coherence\)$", {"1"}, name="mirror present"))),
       functions=[("tiered_engine.rs", "filter_hot_knn_results_to_canonical")]),
    MO("O4.2/canonical_only", "get_metadata / exists answer from the cold tier only (hot_tier.exists feeds a log line, never the result)",
       allof(never(T + "get_metadata", anyev(r"= HotTier::get_metadata\(|= HotTier::get\(|as cache_strategy::CacheStrategy>::", name="hot/cache read"), need_witness_without=False),
             only_via(T + "get_metadata", stmt(r"^_0 = Option::<HashMap<String, String>>::Some\(", name="return Some(metadata)"), Arm(r"^discr\(call HnswBackend::fetch_metadata\)$", {"1"}, name="cold metadata present")),
             never(T + "exists", anyev(r"= HotTier::get|as cache_strategy::CacheStrategy>::", name="hot/cache read"), need_witness_without=False),
             lambda F: FnCheck(F, T + "exists").reachable(call(r"^_0 = Option::<VectorCoherenceToken>::is_some\(", name="_0 = cold token.is_some()")),
             never(T + "exists", stmt(r"^_0 = ", name="any other assignment of the result"), need_witness_without=False),
             precedes(T + "exists", call(r"= HnswBackend::current_coherence_token\(", name="cold_tier.current_coherence_token"), call(r"= HotTier::exists\(", name="hot_tier.exists"))),
       functions=[("tiered_engine.rs", "get_metadata"), ("tiered_engine.rs", "exists")]),
]

COLD_INSERT = call(r"= HnswBackend::insert\(", name="cold_tier.insert")
HOT_INSERT = call(r"= HotTier::insert_with_coherence\(", name="hot_tier.insert_with_coherence")
MOS += [
    MO("O4.4/drain_readonly", "reconcile_drained_hot_tier_documents (every drain): the canonical record is never modified from a mirror while it exists — no cold_tier.update_metadata / delete at all, and the repairing cold_tier.insert only on the arms "
       "where the canonical vector or metadata is missing (never when both are present: a stale mirror must not overwrite newer canonical state)",
       lambda F: drain_readonly(F), functions=[("tiered_engine.rs", "reconcile_drained_hot_tier_documents")]),
    MO("O4.3/insert", "TieredEngine::insert: cache invalidate < durable cold insert (succeeded) < query-cache invalidation < fresh canonical token < hot mirror",
       allof(precedes(T + "insert", call(r"as cache_strategy::CacheStrategy>::invalidate\(", name="cache_strategy.invalidate"), COLD_INSERT),
             only_via(T + "insert", HOT_INSERT, Arm(r"^discr\(try\(call HnswBackend::insert\)\)$", {"0"}, name="cold_tier.insert()? -> Ok")),
             precedes(T + "insert", COLD_INSERT, call(r"= QueryHashCache::invalidate_doc\(", name="query_cache.invalidate_doc")),
             precedes(T + "insert", call(r"= QueryHashCache::invalidate_doc\(", name="query_cache.invalidate_doc"), HOT_INSERT),
             precedes(T + "insert", call(r"= QueryHashCache::invalidate_for_insert\(", name="query_cache.invalidate_for_insert"), HOT_INSERT),
             precedes(T + "insert", COLD_INSERT, call(r"= HnswBackend::current_coherence_token\(", name="cold_tier.current_coherence_token")),
             precedes(T + "insert", call(r"= HnswBackend::current_coherence_token\(", name="cold_tier.current_coherence_token"), HOT_INSERT),
             follows(T + "insert", COLD_INSERT, HOT_INSERT, exit="ok")),
       functions=[("tiered_engine.rs", "insert")]),
    MO("O4.3/delete", "TieredEngine::delete / batch_delete: canonical delete first (succeeded), then the hot mirror, cache entry and query cache are scrubbed before Ok",
       allof(precedes(T + "delete", call(r"= HnswBackend::delete\(", name="cold_tier.delete"), call(r"= HotTier::delete\(", name="hot_tier.delete")),
             # the hot mirror is scrubbed on every successful canonical delete (found or not): otherwise a later drain "repairs" the deleted record from the mirror
             follows(T + "delete", call(r"= HnswBackend::delete\(", name="cold_tier.delete"), call(r"= HotTier::delete\(", name="hot_tier.delete"), exit="ok"),
             follows(T + "batch_delete", call(r"= HnswBackend::batch_delete\(", name="cold_tier.batch_delete"), call(r"= HotTier::batch_delete\(", name="hot_tier.batch_delete"), exit="ok"),
             only_via(T + "delete", call(r"= HotTier::delete\(", name="hot_tier.delete"), Arm(r"^discr\(try\(call HnswBackend::delete\)\)$", {"0"}, name="cold_tier.delete()? -> Ok")),
             follows(T + "delete", call(r"= HnswBackend::delete\(", name="cold_tier.delete"), call(r"as cache_strategy::CacheStrategy>::invalidate\(", name="cache_strategy.invalidate"), exit="ok", assume=[Arm(r"^\(\(\{try\(call HnswBackend::delete\)\} as Continue\)\.0: bool\)$", {"otherwise"}, name="cold_deleted == true")]),
             follows(T + "delete", call(r"= HnswBackend::delete\(", name="cold_tier.delete"), call(r"= QueryHashCache::invalidate_doc\(", name="query_cache.invalidate_doc"), exit="ok", assume=[Arm(r"^\(\(\{try\(call HnswBackend::delete\)\} as Continue\)\.0: bool\)$", {"otherwise"}, name="cold_deleted == true")]),
             precedes(T + "batch_delete", call(r"= HnswBackend::batch_delete\(", name="cold_tier.batch_delete"), call(r"= HotTier::batch_delete\(", name="hot_tier.batch_delete")),
             follows(T + "batch_delete", call(r"= HnswBackend::batch_delete\(", name="cold_tier.batch_delete"), call(r"as cache_strategy::CacheStrategy>::invalidate\(", name="cache_strategy.invalidate"), exit="ok",
                     assume=[Arm(r"^discr\(call <std::slice::Iter<'_, u64> as Iterator>::next\)$", {"1"}, name="at least one id", nth=0)])),
       functions=[("tiered_engine.rs", "delete"), ("tiered_engine.rs", "batch_delete")]),
    MO("O4.3/update_metadata", "TieredEngine::update_metadata: canonical update first (succeeded and found), only then the hot mirror",
       allof(precedes(T + "update_metadata", call(r"= HnswBackend::update_metadata\(", name="cold_tier.update_metadata"), call(r"= HotTier::update_metadata\(", name="hot_tier.update_metadata")),
             only_via(T + "update_metadata", call(r"= HotTier::update_metadata\(", name="hot_tier.update_metadata"), Arm(r"^discr\(try\(call HnswBackend::update_metadata\)\)$", {"0"}, name="cold update -> Ok")),
             only_via(T + "update_metadata", call(r"= HotTier::update_metadata\(", name="hot_tier.update_metadata"), Arm(r"^\(\(\{try\(call HnswBackend::update_metadata\)\} as Continue\)\.0: bool\)$", {"otherwise"}, name="cold update found the document"))),
       functions=[("tiered_engine.rs", "update_metadata")]),
]


def run(tier, seed, notes):
    return run_mir_obligations("C04", tier, MOS, notes)
