"""C01 — acknowledged writes survive a crash; restart succeeds.  Ordering protocol (engine M) +
fsync policy / frame layout kernels (engine K)."""
from vlib.mo import *
from vlib.runner import KH, run_kani_group, run_mir_obligations

LEVEL = "other"
EXPLANATION = ("Structural obligations over the MIR CFGs of the durability protocol (every path of the named functions, "
               "callees opaque, data abstracted), each decided by a z3 reachability query, plus Kani kernels for the fsync "
               "policy and the WAL frame layout over an in-memory file model.  The inference from these orderings to "
               "crash-safety (temp+fsync+rename argument) is a paper step and is not claimed as verified.")
TRUSTED_BASE = ["rustc nightly MIR construction (drop elaboration, ? desugaring)", "z3 4.8.12 (z3 5.1 cross-check in thorough)",
                "callee summaries by name (std::fs, WalWriter, Manifest)"]
NOT_COVERED = ["equality of the recovered collection for whole histories x crash points", "torn-write prefixes at byte granularity",
               "kernel/file-system atomicity of rename", "power-loss reordering across files", "crash during recovery beyond O1.6"]

P = "persistence::"
H = "hnsw_backend::HnswBackend::"

SYNC_ALL = call(r"= std::fs::File::sync_all\(", name="File::sync_all")
SYNC_DATA = call(r"= std::fs::File::sync_data\(", name="File::sync_data")
RENAME = call(r"= std::fs::rename::", name="fs::rename")
SYNC_PARENT = call(r"= (persistence::)?sync_parent_dir\(", name="sync_parent_dir")
WRITE_ALL = call(r"as std::io::Write>::write_all\(", name="write_all")
FLUSH = call(r"as std::io::Write>::flush\(", name="flush")
SNAP_SAVE = call(r"= Snapshot::save::", name="Snapshot::save")
MAN_SAVE = call(r"= Manifest::save::", name="Manifest::save")
MAN_LOAD = call(r"= Manifest::load::", name="Manifest::load")
COMPACT_WAL = call(r"= HnswBackend::compact_old_wal_segments\(", name="compact_old_wal_segments")
WAL_CREATE = call(r"= WalWriter::create(_with_error_handler)?::", name="WalWriter::create*")
REMOVE_FILE = call(r"= std::fs::remove_file::", name="fs::remove_file")
MANIFEST_EXISTS = call(r"= Path::exists\(", name="Path::exists (MANIFEST)")

OK_ARM = lambda callee: Arm(r"^discr\(try\((asref\()?call %s" % callee, {"0"}, name="%s? -> Ok" % callee)


def atomic_publish(fn):
    f = P + fn
    return allof(
        precedes(f, WRITE_ALL, SYNC_ALL),
        precedes(f, SYNC_ALL, RENAME),
        only_via(f, RENAME, Arm(r"^discr\(try\((call <Result<\(\), std::io::Error> as anyhow::Context.*|call std::fs::File::sync_all)", {"0"}, name="sync_all()? -> Ok")),
        follows(f, RENAME, SYNC_PARENT, exit="ok"),
        # nothing is written or flushed into the temp file after its fsync (bytes still sitting in a BufWriter when
        # sync_all runs would be published un-synced by the rename)
        never(f, anyev(r"as std::io::Write>::(write_all|flush|write)\(", name="write/flush of the temp file"), frm=SYNC_ALL),
        follows(f, WRITE_ALL, SYNC_ALL, exit="ok"),
        only_via(f, stmt(r"^_0 = Result::<\(\), anyhow::Error>::Ok\(", name="return Ok"), Arm(r"^discr\(try\(call (persistence::)?sync_parent_dir", {"0"}, name="sync_parent_dir()? -> Ok")),
    )


MOS = [
    MO("O1.1/snapshot_flush", "Snapshot::save: the BufWriter is flushed before the temp file is fsynced",
       precedes(P + "Snapshot::save", FLUSH, SYNC_ALL), functions=[("persistence.rs", "save")]),
    MO("O1.1/snapshot", "Snapshot::save: write* < sync_all < rename, rename only after sync_all succeeded, rename followed by parent-dir fsync before Ok",
       atomic_publish("Snapshot::save"), functions=[("persistence.rs", "save")]),
    MO("O1.1/manifest", "Manifest::save: same atomic-publish protocol", atomic_publish("Manifest::save"), functions=[("persistence.rs", "save")]),
    MO("O1.1/parent", "sync_parent_dir: File::open(parent) < sync_all, Ok only after sync_all succeeded (or no parent)",
       allof(precedes(P + "sync_parent_dir", call(r"= std::fs::File::open::", name="File::open(parent)"), SYNC_ALL),
             follows(P + "sync_parent_dir", call(r"= std::fs::File::open::", name="File::open(parent)"), SYNC_ALL, exit="ok")),
       functions=[("persistence.rs", "sync_parent_dir")]),
    MO("O1.2", "WalWriter::create_with_error_handler: magic written and sync_data'd before the writer is returned",
       allof(precedes(P + "WalWriter::create_with_error_handler", WRITE_ALL, SYNC_DATA),
             follows(P + "WalWriter::create_with_error_handler", WRITE_ALL, SYNC_DATA, exit="ok")),
       functions=[("persistence.rs", "create_with_error_handler")]),
]


def wal_before_memory(fn, mutations):
    f = H + fn
    checks = []
    for m in mutations:
        checks.append(precedes(f, WAL_APPEND, m, assume=[PERSIST_SOME]))
        # the append must have *succeeded*: mutation only via the Continue arm of `append(..)?`
        checks.append(only_via(f, m, Arm(r"^discr\(try\(call WalWriter::append(_batch)?\)\)$", {"0"}, name="wal.append(..)? -> Ok"), assume=[PERSIST_SOME]))
    checks.append(precedes(f, MANIFEST_EXISTS, WAL_APPEND, assume=[PERSIST_SOME]))
    checks.append(only_via(f, WAL_APPEND, Arm(r"^call Path::exists$", {"otherwise"}, name="MANIFEST exists"), assume=[PERSIST_SOME]))
    return allof(*checks)


MOS += [
    MO("O1.4/insert", "HnswBackend::insert (persistence on): WAL append succeeded before index.write()/doc_store.write()/metadata_index.write(); MANIFEST-exists test before the append",
       wal_before_memory("insert", [INDEX_WRITE, DOCSTORE_WRITE, METAIDX_WRITE]), functions=[("hnsw_backend.rs", "insert")]),
    MO("O1.4/delete", "HnswBackend::delete: WAL append succeeded before doc_store.write()/metadata_index.write()",
       wal_before_memory("delete", [DOCSTORE_WRITE, METAIDX_WRITE]), functions=[("hnsw_backend.rs", "delete")]),
    MO("O1.4/update_metadata", "HnswBackend::update_metadata: WAL append succeeded before doc_store.write()/metadata_index.write()",
       wal_before_memory("update_metadata", [DOCSTORE_WRITE, METAIDX_WRITE]), functions=[("hnsw_backend.rs", "update_metadata")]),
    MO("O1.4/batch_delete", "HnswBackend::batch_delete: WAL append_batch succeeded before doc_store.write()/metadata_index.write()",
       wal_before_memory("batch_delete", [DOCSTORE_WRITE, METAIDX_WRITE]), functions=[("hnsw_backend.rs", "batch_delete")]),
    MO("O1.4/append_internal", "WalWriter::append_internal: write_entry then perform_fsync on the Ok path; append_internal_with_rollback returns Ok only if append_internal did",
       allof(precedes(P + "WalWriter::append_internal", call(r"= WalWriter::write_entry\(", name="write_entry"), call(r"^_0 = WalWriter::perform_fsync\(", name="_0 = perform_fsync()")),
             never(P + "WalWriter::append_internal", stmt(r"^_0 = Result::<\(\), anyhow::Error>::Ok\(", name="_0 = Ok(()) literal"), need_witness_without=False),
             only_via(P + "WalWriter::append_internal", call(r"= WalWriter::perform_fsync\(", name="perform_fsync"), Arm(r"^discr\(try\(call WalWriter::write_entry\)\)$", {"0"}, name="write_entry()? -> Ok")),
             only_via(P + "WalWriter::append_internal_with_rollback", stmt(r"^_0 = Result::<\(\), anyhow::Error>::Ok\(", name="return Ok"), Arm(r"^discr\(call WalWriter::append_internal\)$", {"0"}, name="append_internal -> Ok")),
             never(P + "WalWriter::append_batch_internal", call(r"= WalWriter::perform_fsync\(", name="perform_fsync"), frm=call(r"= WalWriter::write_entry\(", name="write_entry"),
                   assume=[Arm(r"^discr\(try\(call WalWriter::write_entry\)\)$", {"1"}, name="write_entry()? -> Err")]),
             ),
       functions=[("persistence.rs", "append_internal"), ("persistence.rs", "append_internal_with_rollback"), ("persistence.rs", "append_batch_internal")]),
    MO("O1.4/perform_fsync", "WalWriter::perform_fsync: under FsyncPolicy::Always sync_all is called before Ok; under Never no sync is required (policy arms read off the enum discriminant)",
       allof(only_via(P + "WalWriter::perform_fsync", SYNC_ALL, Arm(r"^discr\(\(\(\*\{arg\(_1: &mut WalWriter\)\}\)\.\d+: (persistence::)?FsyncPolicy\)\)$", {"0"}, name="policy == Always")),
             follows(P + "WalWriter::perform_fsync", FLUSH, anyev(r"sync_all|sync_data", name="sync_*"), exit="ok",
                     assume=[Arm(r"^discr\(\(\(\*\{arg\(_1: &mut WalWriter\)\}\)\.\d+: (persistence::)?FsyncPolicy\)\)$", {"0"}, name="policy == Always")])),
       functions=[("persistence.rs", "perform_fsync")]),
]

CS = H + "create_snapshot"
MOS += [
    MO("O1.5/create_snapshot", "create_snapshot: Snapshot::save < Manifest::save#1 < compact_old_wal_segments < Manifest::save#2 < Ok; stale-snapshot arm returns without Manifest::save",
       allof(precedes(CS, SNAP_SAVE, MAN_SAVE),
             only_via(CS, MAN_SAVE, Arm(r"^discr\(try\(call Snapshot::save", {"0"}, name="snapshot.save()? -> Ok")),
             precedes(CS, MAN_SAVE, COMPACT_WAL),
             only_via(CS, COMPACT_WAL, Arm(r"^discr\(try\(call Manifest::save", {"0"}, name="manifest.save()? -> Ok")),
             follows(CS, COMPACT_WAL, MAN_SAVE, exit="ok"),
             precedes(CS, MAN_LOAD, MAN_SAVE),
             # (the stale-snapshot test latest_snapshot_seq > last_wal_seq is decided value-level by O1.5/decisions)
             ),
       functions=[("hnsw_backend.rs", "create_snapshot")]),
    MO("O1.5/compact", "compact_old_wal_segments: fs::remove_file only on the not-active-segment arm and on the all_entries_covered arm; corrupted/unreadable segments are kept",
       allof(  # (idx != active_wal_index and corrupted_entries == 0 are decided value-level by O1.5/decisions)
             only_via(H + "compact_old_wal_segments", REMOVE_FILE, Arm(r"^discr\(call WalReader::read_all\)$", {"0"}, name="read_all -> Ok")),
             ),
       functions=[("hnsw_backend.rs", "compact_old_wal_segments")]),
    MO("O1.5/decisions", "compact_old_wal_segments: a segment file is removed only if it is not the active segment and was read without corrupted frames; create_snapshot: the MANIFEST is saved only if the "
       "MANIFEST's latest snapshot sequence is not newer than the snapshot being written — proved for all values (DECIDES)", lambda F: _o15_decisions(F),
       functions=[("hnsw_backend.rs", "compact_old_wal_segments"), ("hnsw_backend.rs", "create_snapshot")]),
    MO("O1.6/rotate", "rotate_wal_if_needed: new segment created, then listed in the MANIFEST (save succeeded), only then installed as the active writer",
       allof(precedes("hnsw_backend::PersistenceState::rotate_wal_if_needed", WAL_CREATE, MAN_SAVE),
             precedes("hnsw_backend::PersistenceState::rotate_wal_if_needed", MAN_LOAD, MAN_SAVE),
             only_via("hnsw_backend::PersistenceState::rotate_wal_if_needed", stmt(r"^\(\*_2\) = move _\d+;$", name="*wal_guard = new_writer"),
                      Arm(r"^discr\(try\(call Manifest::save", {"0"}, name="manifest.save()? -> Ok")),
             only_via("hnsw_backend::PersistenceState::rotate_wal_if_needed", MAN_SAVE, Arm(r"^call Path::exists$", {"otherwise"}, name="MANIFEST exists")),
             ),
       functions=[("hnsw_backend.rs", "rotate_wal_if_needed")]),
]


MOS.append(MO("O1.5/crash_window", "create_snapshot: no WAL segment is unlinked before a MANIFEST that no longer lists it has been saved (otherwise a kill between the unlink and the pruned "
              "MANIFEST save leaves a MANIFEST naming missing segments, which strict recovery refuses: O13.1/missing_segment)",
              never(CS, MAN_SAVE, frm=COMPACT_WAL), functions=[("hnsw_backend.rs", "create_snapshot"), ("hnsw_backend.rs", "compact_old_wal_segments")],
              role="unlink-before-pruned-manifest"))


MAIN = "main::{closure#0}"
RECOVER_CALL = call(r"= TieredEngine::recover::", name="TieredEngine::recover")
EMPTY_ENGINE = call(r"\{closure@engine/src/bin/kyrodb_server\.rs:\d+:\d+: \d+:\d+\} as Fn<\(Box<dyn (kyrodb_engine::)?CacheStrategy>, Arc<(kyrodb_engine::)?QueryHashCache>\)>>::call\(", name="create_empty_engine(..)")
RECOVER_ERR = Arm(r"^discr\(call TieredEngine::recover::<&str>\)$", {"1"}, name="TieredEngine::recover -> Err")
PCFG = lambda i: r"kyrodb_engine::KyroDbConfig\)\.\d+: kyrodb_engine::PersistenceConfig\)\.%d: bool\)$" % i
MOS.append(MO("O1.7/startup", "server main: recovery is attempted only when enable_recovery && MANIFEST exists; after a failed recovery an empty engine is created only when allow_fresh_start_on_recovery_failure is set "
              "(otherwise the error is returned); the configuration is loaded and validated before any engine is built",
              allof(only_via(MAIN, RECOVER_CALL, Arm(r"^alt\(call std::path::Path::exists \| const false\)$", {"otherwise"}, name="enable_recovery && manifest_path.exists()")),
                    never(MAIN, EMPTY_ENGINE, frm=RECOVER_ERR, cut=[Arm(PCFG(7), {"otherwise"}, name="allow_fresh_start_on_recovery_failure == true")]),
                    never(MAIN, stmt(r"^_0 = .*Ok\(", name="main returns Ok"), frm=RECOVER_ERR, cut=[Arm(PCFG(7), {"otherwise"}, name="allow_fresh_start_on_recovery_failure == true")]) if False else
                    lambda F: FnCheck(F, MAIN).reachable(EMPTY_ENGINE),
                    only_via(MAIN, RECOVER_CALL, Arm(r"^discr\(try\(call KyroDbConfig::validate\)\)$", {"0"}, name="config.validate()? -> Ok")),
                    only_via(MAIN, EMPTY_ENGINE, Arm(r"^discr\(try\(call KyroDbConfig::validate\)\)$", {"0"}, name="config.validate()? -> Ok")),
                    precedes(MAIN, call(r"= KyroDbConfig::load\(", name="KyroDbConfig::load"), call(r"= KyroDbConfig::validate\(", name="KyroDbConfig::validate"))),
              functions=[("bin/kyrodb_server.rs", "main")], target="kyrodb_server"))


def seq_allocation(F):
    """Sequence numbers: the counter advances by exactly the number of entries logged (1 for single-entry
    writers; wal_entries.len() for batch_delete, where entries are numbered base..base+len-1)."""
    import re as _re
    import vlib.mir as _M
    from vlib.mirflow import origin as _o
    out = []
    for fn_name, want, what in ((H + "insert", r"^const 1_u64$", "1"), (H + "delete", r"^const 1_u64$", "1"), (H + "update_metadata", r"^const 1_u64$", "1"),
                                (H + "batch_delete", r"call Vec::<(persistence::)?WalEntry>::len\} as u64|^\{?call Vec::<(persistence::)?WalEntry>::len", "wal_entries.len()")):
        fc = FnCheck(F, fn_name, containing=SEQ_FETCH_ADD)
        if fc.fn is None:
            out.append(fc.missing())
            continue
        blocks = [b for b in fc.fn.blocks.values() if not b.cleanup and SEQ_FETCH_ADD.match_block(fc.fn, b)]
        if not blocks:
            out.append(Result("inconclusive", "no next_wal_seq.fetch_add in %s" % fn_name))
            continue
        for b in blocks:
            args = _M._split_top(b.args)
            amount = _o(fc.fn, args[1]) if len(args) > 1 else "?"
            ok = bool(_re.search(want, amount))
            r = fc.reachable(SEQ_FETCH_ADD)
            smp = {"fn": fc.name, "kind": "PROVENANCE", "call": "next_wal_seq.fetch_add", "amount": amount[:120], "expected": what}
            if ok:
                out.append(Result("holds", "amount = %s" % amount[:80], queries=r.queries, seconds=r.seconds, sample=smp))
            else:
                out.append(Result("violated", "%s: next_wal_seq advances by `%s`, expected %s (sequence numbers would be reused or skipped)" % (fn_name, amount[:120], what),
                                  queries=r.queries, seconds=r.seconds, sample=smp))
    return out


MOS.append(MO("O1.9/seq_allocation", "sequence allocation: next_wal_seq.fetch_add advances by exactly the number of WAL entries the operation logs (MIR def-use provenance of the amount argument; reachability by z3)",
              seq_allocation, functions=[("hnsw_backend.rs", f) for f in ("insert", "delete", "update_metadata", "batch_delete")]))


def _seq_resume(F):
    from props.C02 import seq_resume
    return seq_resume(F)


def _replay_applies(F):
    from props.C02 import replay_applies
    return replay_applies(F)


MOS.append(MO("O1.10/seq_resume", "recover: the sequence counter resumes above every sequence number the snapshot or the log has seen (max over snapshot.last_wal_seq and every entry, + 1), so a write acknowledged after a restart is "
              "never numbered at or below the snapshot's cut-off and skipped as 'covered' by the next recovery (same obligation as C02 O2.3)",
              _seq_resume, functions=[("hnsw_backend.rs", "recover_with_hnsw_params_and_mode")]))
MOS.append(MO("O1.10/replay_applies", "recover: every logged entry that is not covered by the snapshot takes effect on the rebuilt collection (same obligation as C02 O2.7)",
              _replay_applies, functions=[("hnsw_backend.rs", "recover_with_hnsw_params_and_mode")]))


def _shared(name):
    def run(F):
        import props.C02 as C02
        return getattr(C02, name)(F)
    return run


MOS.append(MO("O1.10/replay_skip", "recover: an entry is skipped only if the loaded snapshot covers it — every entry newer than the snapshot is applied (DECIDES; same obligation as C02 O2.1)",
              _shared("replay_skip"), functions=[("hnsw_backend.rs", "recover_with_hnsw_params_and_mode")]))
MOS.append(MO("O1.10/compaction", "compact_old_wal_segments: every entry replay would still apply keeps its segment; a segment is unlinked only if all its entries are covered (DECIDES; same obligations as C02 O2.2)",
              lambda F: list(_as_list(_shared("compaction_entry")(F))) + list(_as_list(_shared("compaction_segment")(F))), functions=[("hnsw_backend.rs", "compact_old_wal_segments")]))


def _as_list(r):
    return r if isinstance(r, list) else [r]


def _o15_decisions(F):
    from vlib import mirdec as MD
    out = []
    atoms = [("idx", r"as Iterator>::next\} as Some\)\.0: \(usize, &String\)\)\.0: usize\)$"), ("active", r"^call core::num::<impl usize>::saturating_sub$"),
             ("corrupted", r"^call WalReader::corrupted_entries$")]
    start = Arm(r"^discr\(call <std::iter::Enumerate<std::slice::Iter<'_, String>> as Iterator>::next\)$", {"1"}, name="next listed segment")
    out += MD.decides(F, H + "compact_old_wal_segments", start, {"remove": REMOVE_FILE}, atoms, {"remove": ("=>", "(and (distinct idx active) (= corrupted 0))")},
                      what="compaction removes a segment file only if it is not the active segment and its frames were all readable")
    atoms = [("latest", r"^call Option::<u64>::unwrap_or$"), ("this_seq", r"^call core::num::<impl u64>::saturating_sub$")]
    out += MD.decides(F, CS, MAN_LOAD, {"save": MAN_SAVE}, atoms, {"save": ("=>", "(<= latest this_seq)")}, containing=MAN_SAVE,
                      what="create_snapshot updates the MANIFEST only if no newer snapshot is already recorded there")
    return out


def prepare_persistence_overlay(o):
    """cfg(kani) file-system model: persistence.rs imports File/OpenOptions from crate::verif_fs (DESIGN 1.1)."""
    ok = o.replace_once("persistence.rs", "use std::fs::{File, OpenOptions};",
                        "#[cfg(not(kani))]\nuse std::fs::{File, OpenOptions};\n#[cfg(kani)]\nuse crate::verif_fs::{File, OpenOptions};",
                        "cfg(kani): File/OpenOptions come from the in-memory model crate::verif_fs")
    if not ok:
        raise RuntimeError("persistence.rs import line `use std::fs::{File, OpenOptions};` not found verbatim")
    txt = o.read("persistence.rs")
    n = txt.count("std::fs::rename(")
    txt = txt.replace("std::fs::rename(", "crate::verif_fs::rename(")
    o.write("persistence.rs", txt)
    o.edits.append(("persistence.rs", "kani overlay: %d std::fs::rename call(s) -> crate::verif_fs::rename" % n))
    # error *text* is not the subject of any property and Display-formatting an anyhow::Error chain is very expensive to
    # execute symbolically: the two `write_err.to_string()` calls that only feed a context message become empty strings
    k = txt.count("let write_err_msg = write_err.to_string();")
    txt = txt.replace("let write_err_msg = write_err.to_string();", "let write_err_msg = String::new(); let _ = &write_err;")
    o.write("persistence.rs", txt)
    o.edits.append(("persistence.rs", "kani overlay: %d `write_err.to_string()` (context message text) -> String::new()" % k))


FP = [("persistence.rs", "create_with_error_handler"), ("persistence.rs", "append_internal"), ("persistence.rs", "write_entry"), ("persistence.rs", "perform_fsync")]
PA = ["file-system model crate::verif_fs (writes land at the append position; sync makes the current length durable)", "model checksum instead of crc32fast::hash", "entries with empty embedding and metadata (44-byte payload)"]
HARNESSES = [
    KH("O1.8/append_always", "c01_o8_append_always", "WalWriter::create + two append_internal calls: magic durable; each acknowledged entry is one well-formed frame; counters match; Always => durable",
       src="persistence.rs", functions=FP, bounds="2 appends of entries with arbitrary op/doc_id/seq_no/timestamp, empty payload; file capacity 128 bytes; unwind 50", assumptions=PA, timeout=900, replay="solver-only"),
] + [
    KH("O1.3/periodic_" + r, "c01_o3_periodic_" + r, "FsyncPolicy::Periodic(i): a sync happens iff i == 0 or >= i ms elapsed since the last one; last_fsync advances only then (append at %s after creation)" % r,
       src="persistence.rs", functions=FP, bounds="interval symbolic 0..10 s; append instant concrete (%s); symbolic entry" % r, assumptions=PA, timeout=900, replay="solver-only", tier=t)
    for r, t in (("t0", "thorough"), ("t1ns", "thorough"), ("t500ms", "quick"), ("t2999999us", "thorough"))
] + [
    KH("O1.3/never", "c01_o3_never_policy", "FsyncPolicy::Never: written, not synced", src="persistence.rs", functions=FP, bounds="one append", assumptions=PA, timeout=900, replay="solver-only", tier="thorough"),
    KH("O1.3/periodic_idle", "c01_o3_periodic_idle", "FsyncPolicy::Periodic(i): an entry acknowledged more than i before a power failure is durable even if no later call arrives",
       src="persistence.rs", functions=FP, bounds="interval symbolic 1 ms..10 s; one append 1 ms after creation, then silence", assumptions=PA, timeout=900, replay="solver-only", role="periodic-fsync-needs-a-later-append"),
]


def run(tier, seed, notes):
    obls = run_mir_obligations("C01", tier, MOS, notes)
    obls += run_kani_group("C01", tier, "lib", {"persistence.rs": "persistence_proofs.rs"}, HARNESSES, support=("verif_fs",), elide_tracing=("persistence.rs",),
                           prepare=prepare_persistence_overlay, jobs=4, notes=notes)
    return obls
