"""C14 — tenant vector quotas: path-level accounting and lock discipline of the server's quota counters.

What is decided here (engine M, over the server binary's MIR): every reservation is taken and given back on exactly
the paths the property needs, with the amounts it needs, and every quota-relevant engine mutation happens while the
tenant's quota mutex is held.  The count == live-documents equation over whole histories, concurrent schedules and
restarts is NOT decided (see NOT_COVERED); a violation of the lock discipline is replayed natively against the real
server binary (replay/driver/quota_race.rs) before it is reported.
"""
import re

import vlib.mir as _M
from vlib.mo import *
from vlib.mirflow import origin as _o, find_fn
from vlib.runner import run_mir_obligations

ENGINES = "M"
LEVEL = "other"
EXPLANATION = ("mirflow/z3 over the server binary's MIR (async RPC bodies rebuilt from their coroutine state machines): the Insert, BulkInsert, BulkLoadHnsw, Delete and BatchDelete handlers reserve, "
               "release and decrement the tenant's vector count on exactly the paths required (reservation only when the document is new and the tenant is strictly below its limit; given back when the "
               "engine write fails; decremented iff the engine reports a deletion, by the reported count), with the required amounts (MIR def-use provenance), and every exists-check, engine mutation "
               "and counter update of those handlers happens while the per-tenant quota mutex is held (HELD product-graph queries).  A lock-discipline violation is replayed against the real server "
               "binary with concurrent gRPC clients before it is reported.")
TRUSTED_BASE = ["rustc MIR construction", "z3 4.8.12 (z3 5.1 cross-check in thorough)", "callees opaque: TieredEngine::{exists,insert,delete,batch_delete,bulk_load_cold_tier} report truthfully (their own behaviour is C03/C09)",
                "parking_lot::Mutex gives mutual exclusion"]
NOT_COVERED = ["count == live documents over whole histories (needs a live engine; only per-path accounting is decided)", "restart recount beyond its call structure (O14.6)",
               "engine-level exactness of the count returned by batch_delete beyond the sort-before-dedup obligation O14.5 (e.g. ids that exist only as a stale hot-tier mirror are counted)", "UsageTracker (/usage) counters", "schedules: the lock discipline is decided, interleavings are not enumerated",
               "that tenant_quota_lock returns the same mutex for the same tenant (HashMap keyed by tenant id; read from the code, not decided)"]

RPC = lambda name: "<KyroDBServiceImpl as KyroDbService>::%s::{closure#0}::{closure#0}" % name
S = "KyroDBServiceImpl::"
QG = call(r"= Option::<&Arc<Mutex<\(\)>>>::map::<MutexGuard<'_, \(\)>", name="tenant quota mutex guard (tenant_quota_lock().map(|l| l.lock()))")
EVQ = call(r"= KyroDBServiceImpl::enforce_vector_quota\(", name="enforce_vector_quota (exists-check + reservation)")
RESERVE = call(r"= KyroDBServiceImpl::reserve_tenant_vectors\(", name="reserve_tenant_vectors")
RELEASE = call(r"= KyroDBServiceImpl::release_reserved_tenant_vectors\(", name="release_reserved_tenant_vectors")
DECR = call(r"= KyroDBServiceImpl::decrement_tenant_vectors\(", name="decrement_tenant_vectors")
GIVEBACK = call(r"= KyroDBServiceImpl::(decrement_tenant_vectors|release_reserved_tenant_vectors)\(", name="give a slot back (decrement_tenant_vectors / release_reserved_tenant_vectors)")
E_INSERT = call(r"= TieredEngine::insert\(", name="engine.insert")
E_EXISTS = call(r"= TieredEngine::exists\(", name="engine.exists")
E_BULK = call(r"= TieredEngine::bulk_load_cold_tier\(", name="engine.bulk_load_cold_tier")
E_DELETE = call(r"= TieredEngine::delete\(", name="engine.delete")
E_GETMETA = call(r"= TieredEngine::get_metadata\(", name="engine.get_metadata (ownership check)")
E_BDEL = call(r"= TieredEngine::batch_delete(_by_metadata_filter)?\(", name="engine.batch_delete / batch_delete_by_metadata_filter")

EVQ_OK = Arm(r"^discr\((try\()?call KyroDBServiceImpl::enforce_vector_quota\)?\)$", {"0"}, name="enforce_vector_quota -> Ok")
ALREADY = lambda arms: Arm(r"^\(\(\{(try\()?call KyroDBServiceImpl::enforce_vector_quota\)?\} as (Continue|Ok)\)\.0: bool\)$", arms,
                           name="already_exists == %s" % ("true" if "otherwise" in arms else "false"))
INS_ERR = Arm(r"^discr\(call TieredEngine::insert\)$", {"1"}, name="engine.insert -> Err")
INS_OK = Arm(r"^discr\(call TieredEngine::insert\)$", {"0"}, name="engine.insert -> Ok")


STREAM_NEXT = call(r"async fn body of Streaming<.*>::message\(\)\} as .*Future>::poll\(", name="stream.message().await (next item)")


def insert_accounting(name):
    f = RPC(name)
    if name == "bulk_insert":
        # per streamed item: between an Ok insert (or an overwrite) and any decrement lies the receipt of the next item
        return allof(
            only_via(f, E_INSERT, EVQ_OK),
            follows(f, EVQ_OK, E_INSERT, exit="any", exit_ev=STREAM_NEXT),
            follows(f, EVQ_OK, E_INSERT, exit="return"),
            follows(f, INS_ERR, GIVEBACK, exit="any", exit_ev=STREAM_NEXT, cut=[ALREADY({"otherwise"})]),
            follows(f, INS_ERR, GIVEBACK, exit="return", cut=[ALREADY({"otherwise"})]),
            follows(f, INS_OK, STREAM_NEXT, exit="any", exit_ev=GIVEBACK),
            follows(f, ALREADY({"otherwise"}), STREAM_NEXT, exit="any", exit_ev=GIVEBACK),
            only_via(f, GIVEBACK, ALREADY({"0"})),
            lambda F: amount_is(F, f, GIVEBACK, 2, r"^const 1_usize$", "1"),
        )
    return allof(
        only_via(f, E_INSERT, EVQ_OK),                                     # no engine insert after a refused reservation
        follows(f, EVQ_OK, E_INSERT, exit="return"),                        # a reservation is never leaked by an early return before the insert
        follows(f, INS_ERR, GIVEBACK, exit="return", cut=[ALREADY({"otherwise"})]),  # failed insert of a NEW document gives the slot back
        never(f, GIVEBACK, frm=INS_OK),                                        # a successful insert keeps its slot
        never(f, GIVEBACK, frm=ALREADY({"otherwise"})),                        # an overwrite reserved nothing, so nothing is given back
        only_via(f, GIVEBACK, ALREADY({"0"})),                                 # ... i.e. every give-back is guarded by `!already_exists`
        lambda F: amount_is(F, f, GIVEBACK, 2, r"^const 1_usize$", "1"),
    )


def amount_is(F, fname, ev, argi, want_re, want_txt, nth=None):
    """Provenance of the `argi`-th argument at every occurrence of `ev` in `fname`."""
    fc = FnCheck(F, fname, containing=ev)
    if fc.fn is None:
        return fc.missing()
    blocks = [fc.fn.blocks[i] for i in sorted(fc.fn.blocks) if not fc.fn.blocks[i].cleanup and ev.match_block(fc.fn, fc.fn.blocks[i])]
    if nth is not None:
        blocks = blocks[nth:nth + 1]
    if not blocks:
        return Result("inconclusive", "%s not found in %s" % (ev.name, fname))
    r = fc.reachable(ev)
    out = []
    for b in blocks:
        args = _M._split_top(b.args)
        got = _o(fc.fn, args[argi]) if len(args) > argi else "?"
        smp = {"fn": fc.name, "kind": "PROVENANCE", "call": ev.name, "site": "bb%d" % b.idx, "amount": got[:160], "expected": want_txt}
        if re.search(want_re, got):
            out.append(Result("holds", "amount at bb%d = %s" % (b.idx, got[:80]), queries=r.queries, seconds=r.seconds, sample=smp))
        else:
            out.append(Result("violated", "%s at bb%d of %s is called with amount `%s`, expected %s: the tenant's count no longer follows its live documents" % (ev.name, b.idx, fc.name, got[:140], want_txt),
                              queries=r.queries, seconds=r.seconds, sample=smp))
    return out


def bulk_load_accounting(F):
    f = RPC("bulk_load_hnsw")
    R_OK = Arm(r"^discr\(try\(call KyroDBServiceImpl::reserve_tenant_vectors\)\)$", {"0"}, name="reserve_tenant_vectors()? -> Ok")
    B_ERR = Arm(r"^discr\(call TieredEngine::bulk_load_cold_tier\)$", {"1"}, name="bulk_load_cold_tier -> Err")
    B_OK = Arm(r"^discr\(call TieredEngine::bulk_load_cold_tier\)$", {"0"}, name="bulk_load_cold_tier -> Ok")
    SOME_RESERVED = Arm(r"^Gt\(call HashSet::<u64>::len, const 0_usize\)$", {"otherwise"}, name="reserved_slots > 0")
    checks = [
        only_via(f, E_BULK, R_OK),
        follows(f, R_OK, E_BULK, exit="return"),
        follows(f, B_ERR, RELEASE, exit="return"),
        follows(f, SOME_RESERVED, RELEASE, exit="return"),   # after a successful load the unused part of the reservation is released
        precedes(f, RESERVE, E_BULK),
    ]
    out = []
    for c in checks:
        r = c(F)
        out.extend(r if isinstance(r, list) else [r])
    # amounts: reserve(new ids), release(reserved - inserted_now) after Ok, release(reserved) after Err
    out += _as_list(amount_is(F, f, RESERVE, 2, r"^call HashSet::<u64>::len$", "new_doc_ids.len()"))
    fc = FnCheck(F, f, containing=RELEASE)
    if fc.fn is not None:
        sites = [fc.fn.blocks[i] for i in sorted(fc.fn.blocks) if not fc.fn.blocks[i].cleanup and RELEASE.match_block(fc.fn, fc.fn.blocks[i])]
        if len(sites) != 4:
            out.append(Result("inconclusive", "expected 4 release sites in bulk_load_hnsw (2 batches x Ok/Err), found %d" % len(sites)))
        else:
            rr = fc.reachable(RELEASE)
            for b in sites:
                got = _o(fc.fn, _M._split_top(b.args)[2])
                ok = bool(re.search(r"^call core::num::<impl usize>::saturating_sub$|^call HashSet::<u64>::len$", got))
                smp = {"fn": fc.name, "kind": "PROVENANCE", "call": RELEASE.name, "site": "bb%d" % b.idx, "amount": got[:120]}
                out.append(Result("holds" if ok else "violated",
                                  ("amount at bb%d = %s" % (b.idx, got[:80])) if ok else "release at bb%d gives back `%s`, expected reserved_slots or reserved_slots - inserted_now" % (b.idx, got[:120]),
                                  queries=rr.queries, seconds=rr.seconds, sample=smp))
            # the saturating_sub operands: reserved_slots (HashSet len) minus inserted_now (count of ids that exist now)
            for b in fc.fn.blocks.values():
                if not b.cleanup and b.kind == "call" and "saturating_sub" in (b.callee or ""):
                    a = [_o(fc.fn, x) for x in _M._split_top(b.args)[:2]]
                    ok = bool(re.search(r"HashSet::<u64>::len", a[0])) and bool(re.search(r"as Iterator>::count", a[1]))
                    out.append(Result("holds" if ok else "violated",
                                      "release amount = %s - %s" % (a[0][:60], a[1][:60]) if ok else "unused reservation computed as `%s` - `%s`, expected reserved_slots - inserted_now" % (a[0][:80], a[1][:80]),
                                      sample={"fn": fc.name, "kind": "PROVENANCE", "site": "bb%d" % b.idx, "operands": [x[:100] for x in a]}))
    return out


def _as_list(r):
    return r if isinstance(r, list) else [r]


def delete_accounting(F):
    f = RPC("delete")
    EXISTED = lambda arms: Arm(r"^\(\(\{call TieredEngine::delete\} as Ok\)\.0: bool\)$", arms, name="engine.delete -> Ok(%s)" % ("true" if "otherwise" in arms else "false"), nth=0)
    out = []
    for c in (only_via(f, DECR, EXISTED({"otherwise"})), follows(f, EXISTED({"otherwise"}), DECR, exit="return"),
              never(f, DECR, frm=Arm(r"^discr\(call TieredEngine::delete\)$", {"1"}, name="engine.delete -> Err"))):
        out += _as_list(c(F))
    out += _as_list(amount_is(F, f, DECR, 2, r"^const 1_usize$", "1"))
    f = RPC("batch_delete")
    B_OK = Arm(r"^discr\((alt\()?call TieredEngine::batch_delete", {"0"}, name="engine.batch_delete* -> Ok(count)")
    B_ERR = Arm(r"^discr\((alt\()?call TieredEngine::batch_delete", {"1"}, name="engine.batch_delete* -> Err")
    for c in (follows(f, B_OK, DECR, exit="return"), never(f, DECR, frm=B_ERR), only_via(f, DECR, B_OK)):
        out += _as_list(c(F))
    out += _as_list(amount_is(F, f, DECR, 2, r"^\{\(\(\{(alt\()?call TieredEngine::batch_delete[^}]*\} as Ok\)\.0: u64\)\} as usize \(IntToInt\)$", "the count reported by the engine (as usize)"))
    return out


def held_all(fname, events, absent=False):
    def run(F):
        out = []
        for ev in events:
            fc = FnCheck(F, fname, containing=ev)
            out.append(fc.held(QG, ev, absent_is_violation=absent))
        return out
    return run


def helper_arithmetic(F):
    """enforce_vector_quota / reserve_tenant_vectors / release / decrement: limit test and amounts (provenance + paths)."""
    out = []
    mv = field_index("bin/kyrodb_server.rs", "TenantContext", "max_vectors")
    if mv is None:
        return [Result("inconclusive", "TenantContext.max_vectors not found in bin/kyrodb_server.rs")]
    LIMIT = r"\(\(\*\{\(\(\{arg\(_2: Option<&TenantContext>\)\} as Some\)\.0: &TenantContext\)\}\)\.%d: usize\)" % mv
    ENTRY = r"\(\*\{call hash_map::Entry::<'_, String, usize>::or_insert\}\)"
    STORE = stmt(r"^\(\*_\d+\) = move _\d+;$", name="*entry = new count")
    # --- enforce_vector_quota
    f = S + "enforce_vector_quota"
    fc = FnCheck(F, f)
    if fc.fn is None:
        return [fc.missing()]
    below = Arm(r"^Ge\(" + ENTRY + ", " + LIMIT + r"\)$", {"0"}, name="!(count >= max_vectors)")
    sw = [(_i, _o(fc.fn, fc.fn.blocks[_i].switch_local)) for _i in sorted(fc.fn.blocks) if not fc.fn.blocks[_i].cleanup and fc.fn.blocks[_i].kind == "switch"]
    lim = [(i, o) for i, o in sw if "or_insert" in o]
    r0 = fc.reachable(STORE)
    if len(lim) != 1:
        out.append(Result("inconclusive", "expected one limit test on the tenant's entry in enforce_vector_quota, found %d" % len(lim)))
    elif not below.origin_re.search(lim[0][1]):
        out.append(Result("violated", "enforce_vector_quota tests `%s`; the property needs refusal exactly when count >= max_vectors (a tenant at its limit is refused, one below it is not)" % lim[0][1][:200],
                          queries=r0.queries, seconds=r0.seconds, sample={"fn": fc.name, "kind": "PROVENANCE", "limit_test": lim[0][1][:200]}))
    else:
        out.append(Result("holds", "limit test: count >= max_vectors", queries=r0.queries, seconds=r0.seconds, sample={"fn": fc.name, "kind": "PROVENANCE", "limit_test": lim[0][1][:200]}))
        out.append(fc.only_via(STORE, below))
    out.append(fc.only_via(stmt(r"^_0 = Result::<bool, (tonic::)?Status>::Ok\(const true\);$", name="return Ok(true) [already exists]"), Arm(r"^call TieredEngine::exists$", {"otherwise"}, name="engine.exists() == true")))
    out.append(fc.never(STORE, frm=Arm(r"^call TieredEngine::exists$", {"otherwise"}, name="engine.exists() == true")))
    out.append(fc.precedes(STORE, stmt(r"^_0 = Result::<bool, (tonic::)?Status>::Ok\(const false\);$", name="return Ok(false) [reserved]"),
                           assume=[Arm(r"^discr\(arg\(_2: Option<&TenantContext>\)\)$", {"1"}, name="tenant is Some")]))
    out += _store_amounts(fc, r"saturating_add", [ENTRY.replace("\\", "\\")], r"^const 1_usize$", "count + 1")
    # --- reserve_tenant_vectors
    f = S + "reserve_tenant_vectors"
    fc = FnCheck(F, f)
    if fc.fn is None:
        return out + [fc.missing()]
    fits = Arm(r"^Gt\(call core::num::<impl usize>::saturating_add, " + LIMIT + r"\)$", {"0"}, name="!(count + n > max_vectors)")
    sw = [(_i, _o(fc.fn, fc.fn.blocks[_i].switch_local)) for _i in sorted(fc.fn.blocks) if not fc.fn.blocks[_i].cleanup and fc.fn.blocks[_i].kind == "switch"]
    lim = [(i, o) for i, o in sw if "TenantContext)}).%d" % mv in o or "saturating_add" in o]
    r0 = fc.reachable(STORE)
    if len(lim) != 1:
        out.append(Result("inconclusive", "expected one limit test in reserve_tenant_vectors, found %d" % len(lim)))
    elif not fits.origin_re.search(lim[0][1]):
        out.append(Result("violated", "reserve_tenant_vectors tests `%s`; the property needs refusal exactly when count + n > max_vectors" % lim[0][1][:200], queries=r0.queries, seconds=r0.seconds,
                          sample={"fn": fc.name, "kind": "PROVENANCE", "limit_test": lim[0][1][:200]}))
    else:
        out.append(Result("holds", "limit test: count + n > max_vectors", queries=r0.queries, seconds=r0.seconds, sample={"fn": fc.name, "kind": "PROVENANCE", "limit_test": lim[0][1][:200]}))
        out.append(fc.only_via(STORE, fits))
    out += _store_amounts(fc, r"saturating_add", None, r"^arg\(_3: usize\)$", "count + n", every=True)
    # --- release / decrement
    for nm in ("release_reserved_tenant_vectors", "decrement_tenant_vectors"):
        fc = FnCheck(F, S + nm)
        if fc.fn is None:
            out.append(fc.missing())
            continue
        out.append(fc.reachable(STORE))
        out += _store_amounts(fc, r"saturating_sub", None, r"^arg\(_3: usize\)$", "count - n (saturating)")
    return out


def _store_amounts(fc, op_re, _unused, second_re, what, every=False):
    """Every `op` call of the function (saturating_add / saturating_sub on the entry) uses the expected second operand."""
    out = []
    sites = [b for b in fc.fn.blocks.values() if not b.cleanup and b.kind == "call" and re.search(op_re, b.callee or "")]
    if not sites:
        return [Result("violated", "%s no longer updates the tenant's count with %s (%s)" % (fc.name, op_re, what), sample={"fn": fc.name, "kind": "PROVENANCE"})]
    for b in sites:
        a = [_o(fc.fn, x) for x in _M._split_top(b.args)[:2]]
        ok = bool(re.search(second_re, a[1])) and "or_insert" in a[0] or (bool(re.search(second_re, a[1])) and "get_mut" in a[0])
        out.append(Result("holds" if ok else "violated", ("%s: %s(%s, %s)" % (what, op_re, a[0][:50], a[1][:30])) if ok else
                          "%s updates the count as %s(`%s`, `%s`), expected %s" % (fc.name, op_re, a[0][:80], a[1][:60], what),
                          sample={"fn": fc.name, "kind": "PROVENANCE", "site": "bb%d" % b.idx, "operands": [x[:100] for x in a]}))
    return out


MAIN = "main::{closure#0}"
COUNT_INS = call(r"= HashMap::<String, usize>::insert\(", name="tenant_vector_counts.insert(tenant, count)")


def startup_recount(F):
    fc = FnCheck(F, MAIN, containing=COUNT_INS)
    if fc.fn is None:
        return [fc.missing()]
    IDS = call(r"= HnswBackend::ids_for_metadata_filter\(", name="cold_tier.ids_for_metadata_filter(__tenant_idx__ == idx)")
    out = [fc.precedes(IDS, COUNT_INS)]
    out += _as_list(amount_is(F, MAIN, COUNT_INS, 2, r"^call core::num::<impl usize>::saturating_add$", "cold_count + hot_count"))
    # the recount happens after recovery produced the engine
    out.append(fc.never(call(r"= TieredEngine::recover::", name="TieredEngine::recover"), frm=COUNT_INS))  # never recount first and recover afterwards
    return out


BIN = "bin/kyrodb_server.rs"
MOS = [
    MO("O14.5/unique_ids", "TieredEngine::batch_delete / batch_delete_by_filter / batch_delete_by_metadata_filter: the id list is sorted before Vec::dedup (which removes only consecutive duplicates), so the deletion count the "
       "server decrements by counts every document once", sorted_before_dedup(r"^tiered_engine::TieredEngine::batch_delete"), functions=[("tiered_engine.rs", "batch_delete"), ("tiered_engine.rs", "batch_delete_by_filter"),
                                                                                                                                         ("tiered_engine.rs", "batch_delete_by_metadata_filter")]),
    MO("O14.1/insert", "Insert: engine.insert only after a granted reservation; no early return leaks a reservation; a failed insert of a new document decrements by 1; successful inserts and overwrites never decrement",
       insert_accounting("insert"), functions=[(BIN, "insert")], target="kyrodb_server"),
    MO("O14.1/bulk_insert", "BulkInsert (per streamed item): same accounting as Insert", insert_accounting("bulk_insert"), functions=[(BIN, "bulk_insert")], target="kyrodb_server"),
    MO("O14.1/bulk_load", "BulkLoadHnsw (both batch sites): reserve(new ids) before the load; load only after a granted reservation; Err releases the whole reservation; Ok releases reserved - inserted_now",
       bulk_load_accounting, functions=[(BIN, "bulk_load_hnsw")], target="kyrodb_server"),
    MO("O14.2/delete", "Delete: decrement by 1 iff the engine reports existed == true; BatchDelete: decrement by the reported count on Ok, never on Err",
       delete_accounting, functions=[(BIN, "delete"), (BIN, "batch_delete")], target="kyrodb_server"),
    MO("O14.3/insert_locked", "Insert / BulkInsert / BulkLoadHnsw: exists-check + reservation, the engine write and every give-back happen while the tenant's quota mutex is held",
       allof(held_all(RPC("insert"), [EVQ, E_INSERT, GIVEBACK]), held_all(RPC("bulk_insert"), [EVQ, E_INSERT, GIVEBACK]), held_all(RPC("bulk_load_hnsw"), [E_EXISTS, RESERVE, E_BULK, RELEASE])),
       functions=[(BIN, "insert"), (BIN, "bulk_insert"), (BIN, "bulk_load_hnsw")], target="kyrodb_server"),
    MO("O14.3/delete_locked", "Delete / BatchDelete: the ownership check, the engine deletion and the decrement happen while the tenant's quota mutex is held (otherwise an upsert that saw the document as existing can interleave and the count drifts below the live documents)",
       allof(held_all(RPC("delete"), [E_GETMETA, E_DELETE, DECR], absent=True), held_all(RPC("batch_delete"), [E_BDEL, DECR], absent=True)),
       functions=[(BIN, "delete"), (BIN, "batch_delete")], target="kyrodb_server", role="delete-outside-quota-lock"),
    MO("O14.4/helpers", "enforce_vector_quota refuses exactly at count >= max_vectors, adds exactly 1 and only when the document does not exist; reserve_tenant_vectors refuses exactly at count + n > max_vectors and adds n; release/decrement subtract n (saturating)",
       helper_arithmetic, functions=[(BIN, "enforce_vector_quota"), (BIN, "reserve_tenant_vectors"), (BIN, "release_reserved_tenant_vectors"), (BIN, "decrement_tenant_vectors")], target="kyrodb_server"),
    MO("O14.6/startup", "server main: each enabled tenant's count is rebuilt from the recovered engine (cold-tier metadata index + hot tier) before the service is constructed",
       startup_recount, functions=[(BIN, "main")], target="kyrodb_server"),
]


def run(tier, seed, notes):
    from vlib import replay as RP
    obls = run_mir_obligations("C14", tier, MOS, notes)
    for o in obls:
        if o.oid == "O14.3/delete_locked" and o.verdict == "violated":
            # replay before reporting: race Insert(overwrite) against Delete through the real server binary
            o.replay = RP.run_quota_race(rounds=300, notes=notes)
            if o.replay.get("reproduced") is None:
                o.detail += " | native replay could not run: " + str(o.replay.get("output"))[:200]
                o.replay = {"reproduced": False, "path": None, "how": o.replay.get("how"), "output": o.replay.get("output")}
            else:
                o.detail += " | native replay: " + str(o.replay.get("output"))[:200]
    return obls
