"""C02 — restart is lossless: the decision kernels restart losslessness rests on.

Not the whole statement (histories x configurations of a live engine are out of reach, see NOT_COVERED), but the four
places where a single comparison or constant decides whether a restart loses, resurrects or alters a document:
which WAL entries replay skips, which segments compaction may delete, where the sequence counter resumes, and whether
a logged vector survives the replay-time normalisation bit for bit.
"""
from vlib.mo import *
from vlib import mirdec as MD
from vlib.mirflow import find_fn, origin as _o
from vlib.runner import KH, run_kani_group, run_mir_obligations
import vlib.mir as _M
import re

LEVEL = "other"
TECHNIQUE = ("decision predicates extracted from the MIR control-flow graph and proved equivalent to the property's predicate by z3 (DECIDES), MIR def-use provenance, "
             "and Kani/CBMC bounded model checking of the real normalisation + validation code over all f32 bit patterns")
EXPLANATION = ("mirdec/z3: the condition under which recovery applies (rather than skips) a WAL entry, the condition under which compaction marks an entry as not covered, and the condition under which a "
               "segment file is deleted are extracted from the MIR of recover_with_hnsw_params_and_mode / compact_old_wal_segments as SMT formulas over (entry.seq_no, entry.timestamp, snapshot seq, snapshot "
               "timestamp, the segment flags) and proved equivalent to the property's predicates for all values — so replay never skips an entry the snapshot does not contain and compaction never deletes one "
               "replay would need.  The sequence counter resumes at max(seen)+1 (provenance + DECIDES on the max update).  Kani: every vector of dimension <= 2 (all bit patterns, both settings of "
               "disable_normalization_check) that passes the pre-log validation is accepted again and left bit-identical by the normalisation recovery applies.")
TRUSTED_BASE = ["rustc MIR construction", "z3 4.8.12", "Kani 0.68 / CBMC 6.11 float semantics", "stubs: scalar SIMD kernel table, std::fmt::format, Backtrace::capture"]
NOT_COVERED = ["whole histories x configurations (HNSW rebuild, HashMap stores, bincode, real files): only the decision kernels are decided", "tombstone compaction rebuild", "snapshot content == live store at last_wal_seq (lock discipline is C09)",
               "normalisation harness: dimension > 2; the full bit-identity statement at dimension 2 for Cosine/InnerProduct (no verdict in 20 min; dimension 1 and the overflow rows at dimension 2 are decided)", "legacy (seq_no == 0) entries beyond the skip/cover predicates", "metadata equality"]

H = "hnsw_backend::HnswBackend::"
REC = H + "recover_with_hnsw_params_and_mode"
CMP = H + "compact_old_wal_segments"
SKIP = "(or (and (> snap 0) (> seq 0) (<= seq snap)) (and (= seq 0) (> snapts 0) (> ts 0) (<= ts snapts)))"


def _idx():
    d = {"seq": field_index("persistence.rs", "WalEntry", "seq_no"), "ts": field_index("persistence.rs", "WalEntry", "timestamp"),
         "snap": field_index("persistence.rs", "Snapshot", "last_wal_seq"), "snapts": field_index("persistence.rs", "Snapshot", "timestamp")}
    return d if all(v is not None for v in d.values()) else None


def replay_skip(F):
    ix = _idx()
    if ix is None:
        return Result("inconclusive", "WalEntry.seq_no/timestamp or Snapshot.last_wal_seq/timestamp not found in persistence.rs")
    E_ = r"\(\(\{call <IntoIter<WalEntry> as Iterator>::next\} as Some\)\.0: persistence::WalEntry\)\}\.%d: u64\)"
    atoms = [("seq", E_ % ix["seq"]), ("ts", E_ % ix["ts"]),
             ("snap", r"^alt\(\(_\d+\.%d: u64\) \| const 0_u64\)$" % ix["snap"]), ("snapts", r"^alt\(\(_\d+\.%d: u64\) \| const 0_u64\)$" % ix["snapts"])]
    start = Arm(r"^discr\(call <IntoIter<WalEntry> as Iterator>::next\)$", {"1"}, name="next WAL entry of the segment")
    outcomes = {"apply": r"^discr\(.*: persistence::WalOp\)\)$", "skip": call(r"= <IntoIter<WalEntry> as Iterator>::next\(", name="loop head (entry skipped or done)")}
    STRICTLY_OLDER = "(or (and (> snap 0) (> seq 0) (< seq snap)) (and (= seq 0) (> snapts 0) (> ts 0) (< ts snapts)))"
    a = MD.decides(F, REC, start, outcomes, atoms, {"apply": ("<=", "(not %s)" % SKIP)},
                   what="recovery applies every WAL entry that is not covered by the loaded snapshot (seq_no > snapshot.last_wal_seq, or the legacy timestamp rule)")
    b = MD.decides(F, REC, start, outcomes, atoms, {"apply": ("=>", "(not %s)" % STRICTLY_OLDER)},
                   what="recovery never re-applies an entry strictly older than the snapshot (re-applying the boundary entry itself is idempotent and allowed)")
    return a + b


def compaction_entry(F):
    rn, fn = find_fn(F, CMP)
    if fn is None:
        return Result("inconclusive", "compact_old_wal_segments not found")
    ix = _idx()
    cov = (fn.debug.get("all_entries_covered") or "").strip()
    if ix is None or not re.match(r"^_\d+$", cov):
        return Result("inconclusive", "all_entries_covered / WalEntry fields not found")
    atoms = [("seq", r"&persistence::WalEntry\)\}\)\.%d: u64\)$" % ix["seq"]), ("ts", r"&persistence::WalEntry\)\}\)\.%d: u64\)$" % ix["ts"]),
             ("snap", r"^arg\(_3: u64\)$"), ("snapts", r"^arg\(_4: u64\)$")]
    start = Arm(r"^discr\(call <std::slice::Iter<'_, WalEntry> as Iterator>::next\)$", {"1"}, name="next entry of the segment")
    outcomes = {"uncovered": stmt(r"^%s = const false;$" % cov, name="all_entries_covered = false"),
                "next": call(r"= <std::slice::Iter<'_, WalEntry> as Iterator>::next\(", name="loop head")}
    return MD.decides(F, CMP, start, outcomes, atoms, {"uncovered": ("<=", "(not %s)" % SKIP)},
                      what="every entry replay would still need (not covered by the snapshot) marks its segment as not deletable")


def compaction_segment(F):
    atoms = [("covered", r"^flag _\d+ all_entries_covered$"), ("legacy", r"^flag _\d+ has_legacy$"), ("unknown_ts", r"^flag _\d+ has_unknown_timestamp$")]
    start = Arm(r"^discr\(call <std::slice::Iter<'_, WalEntry> as Iterator>::next\)$", {"0"}, name="entries of the segment exhausted")
    outcomes = {"remove": call(r"= std::fs::remove_file::", name="remove_file(segment)"), "keep": call(r"= Vec::<String>::push\(", name="segments_to_keep.push"),
                "loop": call(r"Enumerate<std::slice::Iter<'_, String>> as Iterator>::next\(", name="next segment")}
    out = MD.decides(F, CMP, start, outcomes, atoms, {"remove": ("=>", "(and covered (not (and legacy unknown_ts)))")}, declare=("covered", "legacy", "unknown_ts"),
                     what="a segment file is deleted only if every entry in it is covered (and it holds no legacy entry of unknown age)")
    # all_entries_covered starts true per segment and is only ever lowered
    fc = FnCheck(F, CMP)
    if fc.fn is not None:
        cov = (fc.fn.debug.get("all_entries_covered") or "").strip()
        n_true = sum(1 for b in fc.fn.blocks.values() if not b.cleanup for s_ in b.stmts if s_ == "%s = const true;" % cov)
        out.append(Result("holds" if n_true == 1 else "violated",
                          "all_entries_covered is set to true once per segment (before its entries are examined)" if n_true == 1 else
                          "all_entries_covered is assigned true at %d places: an uncovered entry can be forgotten and its segment deleted" % n_true,
                          sample={"fn": fc.name, "kind": "COUNT", "assignments_true": n_true}))
    return out


def seq_resume(F):
    ix = _idx()
    rn, fn = find_fn(F, REC)
    if fn is None or ix is None:
        return Result("inconclusive", "recover_with_hnsw_params_and_mode / fields not found")
    mx = (fn.debug.get("max_wal_seq") or "").strip()
    if not re.match(r"^_\d+$", mx):
        # renamed: the running maximum is the one user variable that is assigned an entry's seq_no inside the replay loop
        users = set(v.strip() for v in fn.debug.values())
        cands = set()
        for b in fn.blocks.values():
            if b.cleanup:
                continue
            for s_ in b.stmts:
                m = re.match(r"^(_\d+) = move (_\d+);$", s_)
                if m and m.group(1) in users and re.search(r"as Iterator>::next\} as Some\)\.0: persistence::WalEntry\)\}\.%d: u64\)" % ix["seq"], _o(fn, m.group(2))):
                    cands.add(m.group(1))
        if len(cands) != 1:
            return Result("inconclusive", "the running maximum of the sequence numbers (max_wal_seq) was not identified in recover (%d candidates)" % len(cands))
        mx = cands.pop()
    out = []
    # (a) per entry: max_wal_seq is raised to entry.seq_no iff entry.seq_no > max_wal_seq
    E_ = r"\(\(\{call <IntoIter<WalEntry> as Iterator>::next\} as Some\)\.0: persistence::WalEntry\)\}\.%d: u64\)"
    MAXRX = r"^alt\(.*\.%d: u64\) \| (alt\(\(_\d+\.%d: u64\) \| const 0_u64\) \| )?const 0_u64\)$" % (ix["seq"], ix["snap"])
    atoms = [("seq", E_ % ix["seq"]), ("maxseq", MAXRX)]
    start = Arm(r"^discr\(call <IntoIter<WalEntry> as Iterator>::next\)$", {"1"}, name="next WAL entry")
    outcomes = {"raise": stmt(r"^%s = move _\d+;$" % mx, name="max_wal_seq = entry.seq_no"), "apply": r"^discr\(.*: persistence::WalOp\)\)$",
                "skip": call(r"= <IntoIter<WalEntry> as Iterator>::next\(", name="loop head")}
    # the region must start before the update: outcome `raise` is the first thing decided
    out += MD.decides(F, REC, start, {"raise": outcomes["raise"], "rest": r"^Gt\(alt\(\(_\d+\.%d: u64\) \| const 0_u64\), const 0_u64\)$" % ix["snap"]}, atoms, {"raise": ("<=", "(> seq maxseq)")},
                      what="recovery raises max_wal_seq to entry.seq_no whenever entry.seq_no > max_wal_seq (for every entry, skipped or applied)")
    out += MD.decides(F, REC, start, {"raise": outcomes["raise"], "rest": r"^Gt\(alt\(\(_\d+\.%d: u64\) \| const 0_u64\), const 0_u64\)$" % ix["snap"]}, atoms, {"raise": ("=>", "(>= seq maxseq)")},
                      what="recovery never lowers max_wal_seq")
    # (b) the value stored by the raise is the entry's seq_no
    for b in fn.blocks.values():
        if b.cleanup:
            continue
        for s_ in b.stmts:
            m = re.match(r"^%s = move (_\d+);$" % re.escape(mx), s_)
            if m:
                src = _o(fn, m.group(1))
                ok = bool(re.search(E_ % ix["seq"], src)) or bool(re.search(r"\.%d: u64\)( \| const 0_u64\))?$" % ix["snap"], src))
                out.append(Result("holds" if ok else "violated", ("max_wal_seq <- %s" % src[:80]) if ok else "max_wal_seq is raised to `%s`, expected entry.seq_no or snapshot.last_wal_seq" % src[:120],
                                  sample={"fn": rn, "kind": "PROVENANCE", "site": "bb%d" % b.idx, "value": src[:120]}))
    srcs = [r_.sample.get("value", "") for r_ in out if r_.sample and r_.sample.get("kind") == "PROVENANCE" and "value" in r_.sample]
    has_snap = any(re.search(r"\.%d: u64\)( \| const 0_u64\))?$" % ix["snap"], v) for v in srcs)
    has_entry = any(re.search(E_ % ix["seq"], v) for v in srcs)
    out.append(Result("holds" if (has_snap and has_entry) else "violated",
                      "max_wal_seq folds in both the snapshot's last_wal_seq and every entry's seq_no" if (has_snap and has_entry) else
                      "max_wal_seq no longer takes %s into account: after a snapshot that emptied the WAL the recovered counter restarts below snapshot.last_wal_seq and later acknowledged writes are skipped as 'covered' on the next restart"
                      % ("the snapshot's last_wal_seq" if not has_snap else "the entries' seq_no"), sample={"fn": rn, "kind": "PROVENANCE", "max_wal_seq_sources": [v[:80] for v in srcs]}))
    # (c) the counter resumes at max_wal_seq + 1
    news = [b for b in fn.blocks.values() if not b.cleanup and b.kind == "call" and re.search(r"Atomic::<u64>::new$", MF_short(b.callee))]
    adds = [b for b in fn.blocks.values() if not b.cleanup and b.kind == "call" and re.search(r"impl u64>::saturating_add$", MF_short(b.callee))]
    good = False
    for nb in news:
        if "saturating_add" in _o(fn, nb.args):
            for ab in adds:
                a = [_o(fn, x) for x in _M._split_top(ab.args)[:2]]
                if re.search(MAXRX, a[0]) and a[1] == "const 1_u64":
                    good = True
    out.append(Result("holds" if good else "violated", "next_wal_seq = AtomicU64::new(max_wal_seq.saturating_add(1))" if good else
                      "the recovered backend's next_wal_seq is not max_wal_seq + 1: sequence numbers would be reused (entries skipped as 'covered') or the counter would not continue",
                      sample={"fn": rn, "kind": "PROVENANCE", "call": "AtomicU64::new", "args": [_o(fn, nb.args)[:100] for nb in news][:4]}))
    return out


def update_logged_is_applied(F):
    """update_metadata: the metadata written to the WAL entry and the metadata stored in the document store are clones of the
    same value (`updated_metadata`, the result of the merge/replace decision), and replay *replaces* the stored metadata
    by the logged one (no second merge).  Otherwise a restart yields metadata the live engine never held."""
    from vlib.mirflow import _debug_name
    out = []
    fc = FnCheck(F, H + "update_metadata", containing=WAL_APPEND)
    if fc.fn is None:
        return [fc.missing()]
    fn = fc.fn
    logged, stored = [], []
    for b in fn.blocks.values():
        if b.cleanup:
            continue
        for s_ in b.stmts:
            m = re.search(r"WalEntry \{.*metadata: move (_\d+),", s_)
            if m:
                logged.append((b.idx, m.group(1)))
            m = re.match(r"^\(\*(_\d+)\) = move (_\d+);$", s_)
            if m and re.search(r"HashMap<(std::string::)?String, (std::string::)?String>$", fn.locals.get(m.group(2), "")):
                stored.append((b.idx, m.group(2)))

    def root(loc):
        ds = fn.build_defs().get(loc) or []
        for (_b, _i, rhs) in ds:
            m = re.match(r"^CALL <.*HashMap<.*> as Clone>::clone\((?:move |copy )?(_\d+)\)$", rhs)
            if m:
                return _debug_name(fn, m.group(1)) or _o(fn, m.group(1))[:60]
        return _debug_name(fn, loc) or _o(fn, loc)[:60]
    r = fc.reachable(WAL_APPEND)
    if len(logged) != 1 or len(stored) != 1:
        return [Result("inconclusive", "expected one WalEntry construction and one metadata store in update_metadata, found %d / %d" % (len(logged), len(stored)))]
    rl, rs = root(logged[0][1]), root(stored[0][1])
    smp = {"fn": fc.name, "kind": "PROVENANCE", "logged": rl, "stored": rs}
    if rl and rl == rs:
        out.append(Result("holds", "WAL entry and document store both receive clones of `%s`" % rl, queries=r.queries, seconds=r.seconds, sample=smp))
    else:
        out.append(Result("violated", "update_metadata logs `%s` but stores `%s`: after a restart the document carries metadata the live engine never held" % (rl, rs), queries=r.queries, seconds=r.seconds, sample=smp))
    # replay: UpdateMetadata arm assigns the logged metadata, no merge
    rc = FnCheck(F, REC)
    if rc.fn is not None:
        UPD = Arm(r"^discr\(.*: persistence::WalOp\)\)$", {"3"}, name="entry.op == UpdateMetadata")
        EXT = call(r"= <HashMap<String, String> as Extend<\(String, String\)>>::extend", name="metadata.extend (merge)")
        if rc.count(EXT) > 0:
            out.append(rc.never(EXT, frm=UPD))
        else:
            out.append(Result("holds", "replay never merges metadata (no HashMap::extend in recover)", sample={"fn": rc.name, "kind": "NEVER", "B": EXT.name}))
    return out


def replay_applies(F):
    """recover: once an entry is not skipped (O2.1), its effect reaches the rebuilt document map before the next entry is read —
    Insert: documents.insert(entry.doc_id, ..) unless the dimension check bails (an error, not a silent skip);
    Delete: documents.remove(&entry.doc_id);  UpdateMetadata on a present document: the stored metadata is overwritten by
    entry.metadata.  No payload-dependent shortcut (e.g. "empty map: nothing to do") may lie between the arm and the effect."""
    rc = FnCheck(F, REC)
    if rc.fn is None:
        return [rc.missing()]
    fn = rc.fn
    vi = {n: variant_index("persistence.rs", "WalOp", n) for n in ("Insert", "Delete", "UpdateMetadata")}
    fi = {n: field_index("persistence.rs", "WalEntry", n) for n in ("doc_id", "metadata")}
    if None in vi.values() or None in fi.values():
        return [Result("inconclusive", "WalOp variants / WalEntry fields not found: %s %s" % (vi, fi))]
    OPRX = r"^discr\(.*: persistence::WalOp\)\)$"
    ENTRY_ID = r"persistence::WalEntry\)\}\.%d: u64\)$" % fi["doc_id"]
    ENTRY_META = r"persistence::WalEntry\)\}\.%d: (std::collections::)?HashMap<" % fi["metadata"]
    DOCMAP = r"HashMap::<u64, \(Vec<f32>, HashMap<(std::string::)?String, (std::string::)?String>\)>::"

    def keyed(pos):
        def also(f, b, _t):
            a = _M._split_top(b.args)
            return len(a) > pos and bool(re.search(ENTRY_ID, _o(f, a[pos])))
        return also

    def meta_store(f, b, st):
        m = re.match(r"^\(\*_\d+\) = move (_\d+);$", st)
        return bool(m) and bool(re.search(ENTRY_META, _o(f, m.group(1))))
    NEXT = call(r"= <(std::vec::)?IntoIter<(persistence::)?WalEntry> as Iterator>::next\(", name="next WAL entry")
    INS = Ev(r"= " + DOCMAP + r"insert\(", kind="call", also=keyed(1), name="documents.insert(entry.doc_id, ..)")
    REM = Ev(r"= " + DOCMAP + r"remove::<u64>\(", kind="call", also=keyed(1), name="documents.remove(&entry.doc_id)")
    GET = Ev(r"= " + DOCMAP + r"get_mut::<u64>\(", kind="call", also=keyed(1), name="documents.get_mut(&entry.doc_id)")
    STORE = Ev(r"^\(\*_\d+\) = move _\d+;$", kind="stmt", also=meta_store, name="*meta = entry.metadata")
    ABSENT = Arm(r"^discr\(call HashMap::<u64, \(Vec<f32>, HashMap<String, String>\)>::get_mut::<u64>\)$", {"0"}, name="document absent")
    arm = lambda n: Arm(OPRX, {str(vi[n])}, name="entry.op == " + n)
    return [rc.follows(arm("Insert"), INS, exit="any", exit_ev=NEXT),
            rc.follows(arm("Delete"), REM, exit="any", exit_ev=NEXT),
            rc.follows(arm("UpdateMetadata"), GET, exit="any", exit_ev=NEXT),
            rc.follows(arm("UpdateMetadata"), STORE, exit="any", exit_ev=NEXT, cut=[ABSENT])]


def snapshot_contents(F):
    """create_snapshot copies, for every slot of internal_to_external that holds Some(doc_id), the pair (doc_id, clone of
    store.embeddings[slot]) and (doc_id, clone of store.metadata[slot]) — slot taken from the same enumerate() item, the
    vectors and the metadata from the fields of those names, no further condition.  Decided on the four small closures of
    the two filter_map pipelines (straight-line MIR: provenance of the returned tuple; their callers' only branch is
    Option::map itself) and, in create_snapshot, on the provenance of Snapshot::new's document / metadata arguments."""
    ei = field_index("hnsw_backend.rs", "DocumentStore", "embeddings")
    mi = field_index("hnsw_backend.rs", "DocumentStore", "metadata")
    ii = field_index("hnsw_backend.rs", "DocumentStore", "internal_to_external")
    if None in (ei, mi, ii):
        return [Result("inconclusive", "DocumentStore fields not found")]
    out = []
    outer = sorted(n for n in F if re.search(r"HnswBackend::create_snapshot::\{closure#0\}::\{closure#\d+\}$", n) and "Option::<u64>::map::<" in " ".join((b.term or "") for b in F[n].blocks.values()))
    inner = sorted(n for n in F if re.search(r"HnswBackend::create_snapshot::\{closure#0\}::\{closure#\d+\}::\{closure#0\}$", n))
    if len(outer) != 2 or len(inner) != 2:
        return [Result("inconclusive", "create_snapshot's collection pipelines not in the recognised form (%d filter_map closures, %d map closures)" % (len(outer), len(inner)))]
    seen_fields = set()
    for n in outer:
        fn = F[n]
        nb = [b for b in fn.blocks.values() if not b.cleanup]
        txt = " ".join(" ".join(b.stmts) + " " + (b.term or "") for b in nb)
        ok = len(nb) == 2 and bool(re.search(r"_3 = copy \(_2\.0: usize\);", txt)) and bool(re.search(r"internal_id: move _7", txt)) and bool(re.search(r"_7 = &_3;", txt)) \
            and bool(re.search(r"_5 = copy \(\*_4\);", txt)) and bool(re.search(r"_4 = copy \(_2\.1: &(std::option::)?Option<u64>\);", txt)) and bool(re.search(r"Option::<u64>::map::<.*\(move _5, move _6\)", txt))
        out.append(Result("holds" if ok else "inconclusive", "%s: Some(doc_id) of the enumerate item is mapped with the item's own index as slot" % n.split("::")[-1] if ok else "%s: filter_map closure not in the recognised straight-line form" % n.split("::", 3)[-1],
                          sample={"fn": n, "kind": "PROVENANCE"}))
    for n in inner:
        fn = F[n]
        if any(b.kind == "switch" for b in fn.blocks.values() if not b.cleanup):
            out.append(Result("violated", "%s decides on the slot's contents: a document may be left out of (or altered in) the snapshot although it is live" % n.split("::", 3)[-1], sample={"fn": n, "kind": "PROVENANCE"}))
            continue
        ret = [st for b in fn.blocks.values() if not b.cleanup for st in b.stmts if st.startswith("_0 = ")]
        m = re.match(r"^_0 = \(copy _2, move (_\d+)\);$", ret[0]) if len(ret) == 1 else None
        if not m:
            out.append(Result("violated" if ret else "inconclusive", "%s returns `%s`, expected (doc_id, clone of the slot's value)" % (n.split("::", 3)[-1], (ret or ["?"])[0][:80]), sample={"fn": n, "kind": "PROVENANCE"}))
            continue
        o = _o(fn, m.group(1))
        idx = [b for b in fn.blocks.values() if not b.cleanup and b.kind == "call" and "as std::ops::Index<usize>>::index(" in (b.term or "")]
        ok = bool(re.search(r"as Clone>::clone$", o)) and len(idx) == 1
        fld = None
        if ok:
            a = _M._split_top(idx[0].args)
            src, slot = _o(fn, a[0]), _o(fn, a[1])
            fm = re.search(r"\)\.(\d+): (std::vec::)?Vec<", src)
            fld = int(fm.group(1)) if fm else None
            ok = fld in (ei, mi) and bool(re.search(r"\(_1\.1: &usize\)", slot))
        if ok:
            seen_fields.add(fld)
        out.append(Result("holds" if ok else "violated", ("%s returns (doc_id, store.%s[internal_id].clone())" % (n.split("::", 3)[-1], "embeddings" if fld == ei else "metadata")) if ok else
                          "%s does not return a clone of the captured slot of store.embeddings / store.metadata (%s)" % (n.split("::", 3)[-1], o[:80]), sample={"fn": n, "kind": "PROVENANCE", "value": o[:100]}))
    if seen_fields != {ei, mi}:
        out.append(Result("violated", "the two pipelines of create_snapshot do not copy embeddings and metadata respectively (fields seen: %s)" % sorted(seen_fields), sample={"fn": H + "create_snapshot", "kind": "PROVENANCE"}))
    return out


def snapshot_seq(F):
    """create_snapshot: the sequence number recorded in the snapshot (and in the MANIFEST) is next_wal_seq - 1, read while the
    snapshot lock is held exclusively: every entry with a smaller or equal sequence number is in the store the snapshot
    copies, none with a larger one is."""
    SNAP_NEW = call(r"= Snapshot::new\(", name="Snapshot::new")
    fc = FnCheck(F, H + "create_snapshot", containing=SNAP_NEW)
    if fc.fn is None:
        return [fc.missing()]
    fn = fc.fn
    out = []
    r = fc.reachable(SNAP_NEW)
    subs = [b for b in fn.blocks.values() if not b.cleanup and b.kind == "call" and re.search(r"impl u64>::saturating_sub$", MF_short(b.callee))]
    news = [b for b in fn.blocks.values() if not b.cleanup and SNAP_NEW.match_block(fn, b)]
    ok = False
    got = "?"
    for nb in news:
        a = _M._split_top(nb.args)
        got = _o(fn, a[4]) if len(a) > 4 else "?"
        if got == "call core::num::<impl u64>::saturating_sub":
            for sb in subs:
                x = [_o(fn, y) for y in _M._split_top(sb.args)[:2]]
                if x[0] == "call Atomic::<u64>::load" and x[1] == "const 1_u64":
                    ok = True
    smp = {"fn": fc.name, "kind": "PROVENANCE", "call": "Snapshot::new", "last_wal_seq": got[:100]}
    out.append(Result("holds" if ok else "violated", "snapshot.last_wal_seq = next_wal_seq.load().saturating_sub(1)" if ok else
                      "the snapshot records `%s` as last_wal_seq, expected next_wal_seq - 1: replay would skip an entry the snapshot does not contain (or re-apply older ones)" % got[:120],
                      queries=r.queries, seconds=r.seconds, sample=smp))
    # the load happens under the exclusive snapshot lock, and before the store is copied
    LOCKW = call(r"= RwLock::<\(\)>::write\(", name="snapshot_lock.write()")
    LOAD = call(r"= Atomic::<u64>::load\(", name="next_wal_seq.load()")
    out.append(fc.held(LOCKW, LOAD))
    out.append(fc.held(LOCKW, DOCSTORE_READ))
    out.append(fc.precedes(LOAD, DOCSTORE_READ))
    # the MANIFEST records the same number
    for b in fn.blocks.values():
        if b.cleanup:
            continue
        for s_ in b.stmts:
            m = re.match(r"^\((_\d+)\.\d+: (?:std::option::)?Option<u64>\) = move (_\d+);$", s_)
            if m:
                src = _o(fn, m.group(2))
                mm = re.match(r"^Option::<u64>::Some\((?:copy|move) (_\d+)\)$", src)
                if mm:
                    src = _o(fn, mm.group(1))
                good = "saturating_sub" in src
                out.append(Result("holds" if good else "violated", "manifest.latest_snapshot_wal_seq <- Some(last_wal_seq)" if good else
                                  "the MANIFEST records `%s` as latest_snapshot_wal_seq, expected the snapshot's last_wal_seq" % src[:120],
                                  sample={"fn": fc.name, "kind": "PROVENANCE", "site": "bb%d" % b.idx, "value": src[:120]}))
    return out


def MF_short(t):
    from vlib.mirflow import short_ty
    return re.sub(r"::<[^>]*>$", "", short_ty(t or ""))


MOS = [
    MO("O2.4/snapshot_seq", "create_snapshot: last_wal_seq = next_wal_seq - 1, read under the exclusive snapshot lock before the store is copied, and the same number goes into the MANIFEST",
       snapshot_seq, functions=[("hnsw_backend.rs", "create_snapshot")]),
    MO("O2.6/update_logged_is_applied", "update_metadata: the WAL entry and the document store receive clones of the same final metadata; replay replaces (never merges) on UpdateMetadata",
       update_logged_is_applied, functions=[("hnsw_backend.rs", "update_metadata"), ("hnsw_backend.rs", "recover_with_hnsw_params_and_mode")]),
    MO("O2.9/seq_allocation", "sequence allocation: next_wal_seq.fetch_add advances by exactly the number of WAL entries the operation logs, so no later operation re-uses a number already written (same obligation as C01 O1.9)",
       lambda F: __import__("props.C01", fromlist=["seq_allocation"]).seq_allocation(F), functions=[("hnsw_backend.rs", f) for f in ("insert", "delete", "update_metadata", "batch_delete")]),
    MO("O2.8/snapshot_contents", "create_snapshot: every live slot contributes (doc_id, clone of its vector) and (doc_id, clone of its metadata), slot = the enumerate index of the same item, no condition on the contents",
       snapshot_contents, functions=[("hnsw_backend.rs", "create_snapshot")]),
    MO("O2.7/replay_applies", "recover: every non-skipped WAL entry takes effect before the next one is read — Insert inserts under entry.doc_id, Delete removes it, UpdateMetadata overwrites a present document's metadata with entry.metadata (no payload-dependent shortcut)",
       replay_applies, functions=[("hnsw_backend.rs", "recover_with_hnsw_params_and_mode")]),
    MO("O2.1/replay_skip", "recover: every WAL entry with seq_no > snapshot seq (or, legacy, newer than the snapshot timestamp) is applied, and no entry strictly older than the snapshot is re-applied — proved for all values (DECIDES)",
       replay_skip, functions=[("hnsw_backend.rs", "recover_with_hnsw_params_and_mode")]),
    MO("O2.2/compaction_entry", "compact_old_wal_segments: every entry that replay would apply (not covered by the snapshot) lowers all_entries_covered — proved for all values; keeping more than necessary is allowed",
       compaction_entry, functions=[("hnsw_backend.rs", "compact_old_wal_segments")]),
    MO("O2.2/compaction_segment", "compact_old_wal_segments: a segment file is removed only if all its entries are covered and it holds no legacy entry of unknown age; the covered flag is only ever lowered",
       compaction_segment, functions=[("hnsw_backend.rs", "compact_old_wal_segments")]),
    MO("O2.3/seq_resume", "recover: max_wal_seq is the maximum over the snapshot's and every entry's sequence number and the counter resumes at max_wal_seq + 1",
       seq_resume, functions=[("hnsw_backend.rs", "recover_with_hnsw_params_and_mode")]),
]

FK = [("hnsw_backend.rs", "normalize_in_place_if_needed"), ("hnsw_index.rs", "validate_vector"), ("hnsw_backend.rs", "recover_with_hnsw_params_and_mode")]
ROWS = [("overflow_cosine_d2", "quick"), ("unchecked_cosine_d1", "quick"), ("checked_cosine_d1", "quick"), ("checked_inner_product_d1", "thorough"), ("checked_euclidean_d2", "thorough"),
        ("overflow_inner_product_d2", "thorough")]
HARNESSES = [
    KH("O2.5/" + r, "c02_o5_replay_normalize_" + r, "a vector accepted by the pre-log validation of insert is accepted again and left bit-identical by the replay-time normalisation (%s)" % r,
       src="hnsw_backend.rs", functions=FK, bounds="all f32 bit patterns per lane; row = (normalisation check enabled: full statement | disabled: overflowing squared norm refused | disabled, dimension 1: full statement) x metric x dimension: " + r, tier=t, timeout=900,
       role="logged-vector-refused-by-replay-normalisation", assumptions=["scalar kernel table", "index not full"])
    for r, t in ROWS
]
MODS = {"hnsw_backend.rs": "hnsw_backend_proofs.rs", "hnsw_index.rs": "hnsw_index_proofs.rs", "simd.rs": "simd_proofs.rs"}


def run(tier, seed, notes):
    from vlib import replay as RP
    obls = run_mir_obligations("C02", tier, MOS, notes)
    ks = run_kani_group("C02", tier, "lib", MODS, HARNESSES, jobs=4, notes=notes)
    for o in ks:
        if o.verdict == "violated" and "restart does not fail" in (o.detail or ""):
            # replay the restart failure through the public API (Cosine, squared norm overflows, check disabled)
            r = RP.run_scenario(["zero-after-normalize"], timeout=180, notes=notes)
            if r.get("reproduced") is not None:
                o.replay = r
                o.detail += " | native replay: " + str(r.get("output"))[:200]
    return obls + ks
