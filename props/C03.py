"""C03 — a write that reports failure changes nothing, now or after restart."""
from vlib.mo import *
from vlib.mirflow import exit_event
import re
from vlib.runner import KH, run_kani_group, run_mir_obligations

LEVEL = "other"
EXPLANATION = ("mirflow/z3: error edges of the WAL append leave before any in-memory mutation; rollback protocol (truncate < seek < sync, counters restored, rollback failure surfaces); "
               "retry wrapper skeleton.  Kani: pre-log validation is at least as strict as the index's own acceptance test (symbolic f32 vectors, all metrics).")
TRUSTED_BASE = ["rustc MIR", "z3", "Kani/CBMC float semantics", "stubs: std::fmt::format, Backtrace::capture, simd::detect_best_f32_kernels -> scalar table"]
NOT_COVERED = ["faults injected at system-call level through a running engine", "state after a failed fsync (page-cache semantics)", "retry/back-off timing", "index-full race after compaction",
               "compact_tombstones failing half-way (store already compacted when the index rebuild fails)"]

P = "persistence::"
H = "hnsw_backend::HnswBackend::"
APPEND_ERR = Arm(r"^discr\(try\(call WalWriter::append(_batch)?\)\)$", {"1"}, name="wal.append(..)? -> Err")
MEM = anyev(r"= RwLock::<(DocumentStore|HnswVectorIndex|(hnsw_backend::)?MetadataInvertedIndex)>::write\(", name="index/doc_store/metadata_index .write()")


def err_edge_clean(fn):
    return never(H + fn, MEM, frm=APPEND_ERR, assume=[PERSIST_SOME])


OK_UNIT = stmt(r"^_0 = Result::<\(\), anyhow::Error>::Ok\(", name="return Ok(())")
ROLLBACK = call(r"= WalWriter::rollback_to_stable_state\(", name="rollback_to_stable_state")
MOS = [
    MO("O3.2/error_edges", "insert/delete/update_metadata/batch_delete: after a failed WAL append no index/doc_store/metadata_index write lock is taken (memory untouched)",
       allof(*[err_edge_clean(f) for f in ("insert", "delete", "update_metadata", "batch_delete")]),
       functions=[("hnsw_backend.rs", f) for f in ("insert", "delete", "update_metadata", "batch_delete")]),
    MO("O3.2/insert_rollback", "insert: when the index rejects after the append, a compensating WAL entry is appended before Err is returned; wal_inconsistent is set only if that append fails; store not mutated on that arm",
       allof(follows(H + "insert", Arm(r"^discr\(call HnswVectorIndex::add_vector\)$", {"1"}, name="add_vector -> Err"), WAL_APPEND, exit="err", assume=[PERSIST_SOME],
                     exit_ev=anyev(r"^_0 = ", name="any return value")),
             only_via(H + "insert", call(r"= Atomic::<bool>::store\(", name="wal_inconsistent.store(true)"), Arm(r"^discr\(call WalWriter::append\)$", {"1"}, name="rollback append -> Err")),
             never(H + "insert", call(r"= Vec::<Vec<f32>>::push\(", name="store.embeddings.push"), frm=Arm(r"^discr\(call HnswVectorIndex::add_vector\)$", {"1"}, name="add_vector -> Err")),
             never(H + "insert", OK_UNIT, frm=Arm(r"^discr\(call HnswVectorIndex::add_vector\)$", {"1"}, name="add_vector -> Err"))),
       functions=[("hnsw_backend.rs", "insert")]),
    MO("O3.2/degraded_gate", "all four mutators refuse when wal_inconsistent is set, before touching the log",
       allof(*[only_via(H + f, WAL_APPEND, Arm(r"^call Atomic::<bool>::load$", {"0"}, name="wal_inconsistent == false")) for f in ("insert", "delete", "update_metadata", "batch_delete")]),
       functions=[("hnsw_backend.rs", f) for f in ("insert", "delete", "update_metadata", "batch_delete")]),
    MO("O3.3/rollback", "append_internal_with_rollback / append_batch_internal_with_rollback: a failed append always runs rollback_to_stable_state; a failed rollback surfaces (never Ok); rollback_to_offset: set_len < seek < sync_data; counters restored only after the truncate succeeded",
       allof(follows(P + "WalWriter::append_internal_with_rollback", Arm(r"^discr\(call WalWriter::append_internal\)$", {"1"}, name="append_internal -> Err"), ROLLBACK, exit="any"),
             follows(P + "WalWriter::append_batch_internal_with_rollback", Arm(r"^discr\(call WalWriter::append_batch_internal\)$", {"1"}, name="append_batch_internal -> Err"), ROLLBACK, exit="any"),
             never(P + "WalWriter::append_internal_with_rollback", OK_UNIT, frm=Arm(r"^discr\(call WalWriter::append_internal\)$", {"1"}, name="append_internal -> Err")),
             never(P + "WalWriter::append_batch_internal_with_rollback", OK_UNIT, frm=Arm(r"^discr\(call WalWriter::append_batch_internal\)$", {"1"}, name="append_batch_internal -> Err")),
             precedes(P + "WalWriter::rollback_to_offset", call(r"= std::fs::File::set_len\(", name="set_len"), call(r"as std::io::Seek>::seek\(", name="seek")),
             precedes(P + "WalWriter::rollback_to_offset", call(r"as std::io::Seek>::seek\(", name="seek"), call(r"= std::fs::File::sync_data\(", name="sync_data")),
             only_via(P + "WalWriter::rollback_to_offset", OK_UNIT, Arm(r"^discr\(try\(call <Result<\(\), std::io::Error> as anyhow::Context<\(\), std::io::Error>>::context", {"0"}, name="sync_data()? -> Ok")),
             only_via(P + "WalWriter::rollback_to_offset", call(r"as std::io::Seek>::seek\(", name="seek"), Arm(r"^discr\(try\(call <Result<\(\), std::io::Error> as anyhow::Context<\(\), std::io::Error>>::with_context", {"0"}, name="set_len()? -> Ok")),
             only_via(P + "WalWriter::rollback_to_stable_state", stmt(r"^\(\(\*_1\)\.\d+: u64\) = copy _2;$", name="bytes_written = stable_offset"), Arm(r"^discr\(try\(call WalWriter::rollback_to_offset\)\)$", {"0"}, name="rollback_to_offset()? -> Ok")),
             only_via(P + "WalWriter::rollback_to_stable_state", OK_UNIT, Arm(r"^discr\(try\(call WalWriter::rollback_to_offset\)\)$", {"0"}, name="rollback_to_offset()? -> Ok")),
             follows(P + "WalWriter::rollback_to_stable_state", call(r"= WalWriter::rollback_to_offset\(", name="rollback_to_offset"), stmt(r"^\(\(\*_1\)\.\d+: u64\) = copy _2;$", name="bytes_written = stable_offset"), exit="ok"),
             follows(P + "WalWriter::rollback_to_stable_state", call(r"= WalWriter::rollback_to_offset\(", name="rollback_to_offset"), stmt(r"^\(\(\*_1\)\.\d+: usize\) = copy _3;$", name="entry_count = stable_entry_count"), exit="ok"),
             ),
       functions=[("persistence.rs", f) for f in ("append_internal_with_rollback", "append_batch_internal_with_rollback", "rollback_to_offset", "rollback_to_stable_state")]),
    MO("O3.3/write_entry", "write_entry: counters advance only after write_all succeeded",
       allof(only_via(P + "WalWriter::write_entry", stmt(r"^\(\(\*_1\)\.\d+: u64\) = Add\(", name="bytes_written += frame.len()"), Arm(r"^discr\(try\(call <std::fs::File as std::io::Write>::write_all\)\)$", {"0"}, name="write_all()? -> Ok")),
             only_via(P + "WalWriter::write_entry", stmt(r"^\(\(\*_1\)\.\d+: usize\) = Add\(", name="entry_count += 1"), Arm(r"^discr\(try\(call <std::fs::File as std::io::Write>::write_all\)\)$", {"0"}, name="write_all()? -> Ok"))),
       functions=[("persistence.rs", "write_entry")]),
    MO("O3.6/retry", "WalErrorHandler::write_with_retry: circuit-breaker test before the first write; Ok only via write_fn -> Ok; another attempt only via Transient && attempt < max_retries",
       allof(precedes(P + "WalErrorHandler::write_with_retry", call(r"= CircuitBreaker::is_open\(", name="circuit_breaker.is_open"), call(r"as FnMut<\(\)>>::call_mut\(", name="write_fn()")),
             only_via(P + "WalErrorHandler::write_with_retry", call(r"as FnMut<\(\)>>::call_mut\(", name="write_fn()"), Arm(r"^call CircuitBreaker::is_open$", {"0"}, name="breaker closed")),
             only_via(P + "WalErrorHandler::write_with_retry", OK_UNIT, Arm(r"^discr\(call <F as FnMut<\(\)>>::call_mut", {"0"}, name="write_fn() -> Ok")),
             only_via(P + "WalErrorHandler::write_with_retry", call(r"= std::thread::sleep\(", name="sleep+retry"), Arm(r"^Lt\(.*\(\(\*\{arg\(_1: &WalErrorHandler\)\}\)\.\d+: usize\)\)$", {"otherwise"}, name="attempt < max_retries")),
             only_via(P + "WalErrorHandler::write_with_retry", call(r"= std::thread::sleep\(", name="sleep+retry"), Arm(r"^discr\(call WalErrorHandler::classify_error\)$", {"2"}, name="Transient")),
             ),
       functions=[("persistence.rs", "write_with_retry")]),
    MO("O3.6/append_closure", "WalWriter::append: the retried closure is append_internal_with_rollback with the offsets captured before the first attempt",
       allof(lambda F: FnCheck(F, P + "WalWriter::append::{closure#0}").reachable(call(r"= WalWriter::append_internal_with_rollback\(", name="append_internal_with_rollback")),
             precedes(P + "WalWriter::append", stmt(r"= copy \(\(\*_1\)\.\d+: u64\);$", name="stable_offset = self.bytes_written"), call(r"= WalErrorHandler::write_with_retry::", name="write_with_retry")),
             precedes(P + "WalWriter::append", stmt(r"= copy \(\(\*_1\)\.\d+: usize\);$", name="stable_entry_count = self.entry_count"), call(r"= WalErrorHandler::write_with_retry::", name="write_with_retry")),
             lambda F: FnCheck(F, P + "WalWriter::append_batch::{closure#0}").reachable(call(r"= WalWriter::append_batch_internal_with_rollback\(", name="append_batch_internal_with_rollback")),
             ),
       functions=[("persistence.rs", "append"), ("persistence.rs", "append_batch")]),
]


MOS.append(
    MO("O3.1/pinned", "HnswBackend::insert: normalize_in_place_if_needed and HnswVectorIndex::validate_vector both run, and succeed, before the WAL append (pins the pre-flight list the Kani harness O3.1/* replays)",
       allof(only_via_call(H + "insert", WAL_APPEND, call(r"= (hnsw_backend::)?normalize_in_place_if_needed\(", name="normalize_in_place_if_needed"),
                           Arm(r"^discr\(try\(call (hnsw_backend::)?normalize_in_place_if_needed\)\)$", {"0"}, name="normalize_in_place_if_needed()? -> Ok")),
             only_via_call(H + "insert", WAL_APPEND, call(r"= HnswVectorIndex::validate_vector\(", name="HnswVectorIndex::validate_vector"),
                           Arm(r"^discr\(try\(call HnswVectorIndex::validate_vector\)\)$", {"0"}, name="index.validate_vector()? -> Ok"),
                           why="a vector the index will refuse (e.g. all-zero after an overflowing normalisation) is logged first; the compensating Delete destroys the previous version after restart"),
             lambda F: (FnCheck(F, H + "insert").precedes(call(r"= (hnsw_backend::)?normalize_in_place_if_needed\(", name="normalize_in_place_if_needed"), call(r"= HnswVectorIndex::validate_vector\(", name="validate_vector")) if FnCheck(F, H + "insert").count(call(r"= HnswVectorIndex::validate_vector\(", name="validate_vector")) else Result("holds", "validate_vector absent: reported by the ONLY_VIA obligation above"))),
       functions=[("hnsw_backend.rs", "insert")], role="preflight-weaker-than-index"))

def capacity_gate(F):
    """HnswBackend::insert: the WAL append is reached only if the index reported free capacity (is_full() == false) in the
    pre-flight made under the write gate of the same attempt — for new ids and overwrites alike (an overwrite appends a new
    slot too).  Otherwise the index refuses the vector after the append and the compensating Delete destroys the previous
    version of an overwritten document after restart.  This discharges the assumption 'index not full' of the Kani rows O3.1/*."""
    from vlib import mirdec as MD
    GATE = call(r"= Mutex::<\(\)>::lock\(", name="write_gate.lock()")
    FULL = call(r"= HnswVectorIndex::is_full\(", name="index.is_full()")
    out = MD.decides(F, H + "insert", GATE, {"append": WAL_APPEND}, [("full", r"^call HnswVectorIndex::is_full$")], {"append": ("=>", "(not full)")}, containing=WAL_APPEND,
                     what="HnswBackend::insert appends to the WAL only if index.is_full() was false in this attempt's pre-flight")
    fc = FnCheck(F, H + "insert", containing=WAL_APPEND)
    if fc.fn is not None:
        out.append(fc.held(GATE, FULL))
        out.append(fc.held(GATE, WAL_APPEND))
        out.append(fc.precedes(FULL, WAL_APPEND))
    return out


MOS.append(MO("O3.1/capacity_gate", "HnswBackend::insert: WAL append only after index.is_full() == false, both under the same write-gate acquisition (DECIDES + HELD); discharges the 'index not full' assumption of O3.1/*",
              capacity_gate, functions=[("hnsw_backend.rs", "insert")], role="preflight-weaker-than-index"))


def index_acceptance(F):
    """HnswVectorIndex::add_vector refuses a vector only through validate_vector (the test the pre-flight of insert runs before the
    WAL append) or because the index is full / the id does not fit usize / the backend fails: every error exit lies behind one of
    those, and validate_vector is the first thing decided."""
    A = "hnsw_index::HnswVectorIndex::add_vector"
    fc = FnCheck(F, A)
    if fc.fn is None:
        return [fc.missing()]
    VAL = call(r"= HnswVectorIndex::validate_vector\(", name="self.validate_vector(embedding)")
    out = []
    if fc.count(VAL) == 0:
        r = fc.reachable(exit_event("ok"))
        return [Result("violated", "add_vector no longer calls validate_vector: the index accepts or refuses by a test of its own, which the pre-flight of HnswBackend::insert does not run", queries=r.queries, seconds=r.seconds,
                       sample={"fn": fc.name, "kind": "PRECEDES", "A": VAL.name})]
    out.append(fc.precedes(VAL, exit_event("ok")))
    # no vector-dependent refusal other than validate_vector: the remaining error exits are capacity, id conversion, backend
    from vlib.mirflow import origin as _o
    others = []
    for idx in sorted(fc.fn.blocks):
        b = fc.fn.blocks[idx]
        if b.cleanup or b.kind != "switch":
            continue
        o = _o(fc.fn, b.switch_local or "")
        if re.search(r"tracing|Level|Interest", o):
            continue
        if not re.search(r"validate_vector|Ge\(.*usize\), .*usize\)|try_from|backend|insert|add|map_err|is_full", o):
            others.append("bb%d: %s" % (idx, o[:80]))
    out.append(Result("holds" if not others else "violated", "add_vector decides only on validate_vector, capacity, id conversion and the backend result" if not others else
                      "add_vector has a refusal of its own that the pre-flight does not run: " + others[0], sample={"fn": fc.name, "kind": "COUNT", "other_decisions": others[:3]}))
    return out


MOS.append(MO("O3.1/index_acceptance", "HnswVectorIndex::add_vector: validate_vector precedes Ok and no other vector-dependent refusal exists (so 'accepted by the pre-flight' implies 'accepted by the index' for every dimension)",
              index_acceptance, functions=[("hnsw_index.rs", "add_vector")], role="preflight-weaker-than-index"))


def rollback_args(F):
    """The rollback target is the stable state captured by the caller before the first attempt: the arguments passed to
    rollback_to_stable_state are exactly this function's (stable_offset, stable_entry_count) parameters."""
    from vlib.mirflow import origin as _o
    import vlib.mir as _M
    out = []
    for fn_name in (P + "WalWriter::append_internal_with_rollback", P + "WalWriter::append_batch_internal_with_rollback"):
        fc = FnCheck(F, fn_name)
        if fc.fn is None:
            out.append(fc.missing())
            continue
        blocks = [b for b in fc.fn.blocks.values() if not b.cleanup and ROLLBACK.match_block(fc.fn, b)]
        if not blocks:
            out.append(Result("inconclusive", "no rollback_to_stable_state call in %s" % fn_name))
            continue
        for b in blocks:
            args = _M._split_top(b.args)
            o1, o2 = _o(fc.fn, args[1]), _o(fc.fn, args[2])
            r = fc.reachable(ROLLBACK)
            smp = {"fn": fc.name, "kind": "PROVENANCE", "call": "rollback_to_stable_state", "offset_arg": o1[:80], "count_arg": o2[:80]}
            if o1.startswith("arg(_3: u64)") and o2.startswith("arg(_4: usize)"):
                out.append(Result("holds", "rollback target = (stable_offset, stable_entry_count) parameters", queries=r.queries, seconds=r.seconds, sample=smp))
            else:
                out.append(Result("violated", "%s rolls back to (%s, %s) instead of the stable state captured before the attempt: frames written by the failed attempt stay in the log" % (
                    fn_name.split("::")[-1], o1[:80], o2[:80]), queries=r.queries, seconds=r.seconds, sample=smp))
    return out


MOS.append(MO("O3.3/rollback_target", "append_internal_with_rollback / append_batch_internal_with_rollback roll back to the caller's stable offset and entry count (MIR provenance of the call arguments; reachability by z3)",
              rollback_args, functions=[("persistence.rs", "append_internal_with_rollback"), ("persistence.rs", "append_batch_internal_with_rollback")]))

FK = [("hnsw_backend.rs", "normalize_in_place_if_needed"), ("hnsw_index.rs", "add_vector"), ("hnsw_backend.rs", "insert")]
# cosine_d2 / inner_product_d2 are in no tier any more: after the norm-overflow fix (3cfaeac) CBMC no longer finishes them (900 s and
# 2400 s time-outs in isolation; before the fix cosine_d2 took ~200 s) — the squared norm of the normalised vector is computed by the
# pre-flight's validate_vector and again by add_vector's, and the two multiplier circuits have to be proved equal.  Dimension 1 keeps the
# value-level statement for Cosine / InnerProduct; at dimension 2 it is carried by Euclidean (finiteness is metric-independent), by
# C02 O2.5/overflow_*_d2 (overflowing norms) and structurally by O3.1/pinned + O3.1/index_acceptance (the pre-flight calls the index's own test).
ROWS = [("euclidean_d1", "thorough"), ("euclidean_d2", "quick"), ("cosine_d1", "quick"), ("inner_product_d1", "thorough"), ("euclidean_d4", "thorough")]
HARNESSES = [
    KH("O3.1/" + r, "c03_o1_preflight_" + r, "pre-log validation of HnswBackend::insert accepts only vectors the index accepts (%s)" % r, src="hnsw_backend.rs", functions=FK,
       bounds="all f32 bit patterns per lane (NaN, inf, subnormals, overflow of the squared norm); dimension/metric per instance: " + r, tier=t, timeout=900,
       role="preflight-weaker-than-index", assumptions=["index not full (capacity is pre-checked under the write gate)", "scalar kernel table"])
    for r, t in ROWS
]
MODS = {"hnsw_backend.rs": "hnsw_backend_proofs.rs", "hnsw_index.rs": "hnsw_index_proofs.rs", "simd.rs": "simd_proofs.rs"}


from props.C01 import prepare_persistence_overlay  # noqa: E402  (cfg(kani) file-system model for persistence.rs)

FPS = [("persistence.rs", "append_internal_with_rollback"), ("persistence.rs", "rollback_to_stable_state"), ("persistence.rs", "rollback_to_offset"), ("persistence.rs", "write_entry"), ("persistence.rs", "perform_fsync")]
PA3 = ["file-system model crate::verif_fs", "model checksum instead of crc32fast::hash", "FsyncPolicy::Always", "entries with empty embedding/metadata (52-byte frame)"]
PERSIST_HARNESSES = [
] + [
    KH("O3.4/short_write_%d" % j_, "c03_o4_short_write_%d" % j_, "append_internal_with_rollback: the frame write stops after %d of 52 bytes and fails => Err, file truncated to the last good offset, counters restored, earlier frame untouched" % j_,
       src="persistence.rs", functions=FPS, bounds="one good frame on disk; second append with the write cut after %d bytes; symbolic entries" % j_, assumptions=PA3, timeout=1500, replay="solver-only",
       tier=("quick" if j_ == 7 else "thorough"))
    for j_ in (0, 7, 51, 1, 4, 26, 48)
] + [
    KH("O3.4/failed_fsync", "c03_o4_failed_fsync_rolled_back", "append_internal_with_rollback: frame fully written but the fsync fails => Err and the same restoration",
       src="persistence.rs", functions=FPS, bounds="one good frame; second append whose sync_all fails", assumptions=PA3, timeout=1500, replay="solver-only", tier="thorough"),
] + [
    # O3.4/rollback_fails_setlen / _seek (the rollback's own set_len / seek fails => still Err) are in no tier: 2400 s time-outs with the
    # machine to themselves (symbolic choice of the fault: out of memory).  "Never acknowledged when the rollback fails" is decided
    # structurally by O3.3/rollback (Ok only via rollback_to_offset()? -> Ok); the harness bodies stay in harness/persistence_proofs.rs.
    KH("O3.4/batch_fsync", "c03_o4_batch_fsync_fails", "append_batch_internal_with_rollback: frames written, fsync fails => Err and no frame of the batch stays in the log (a complete frame is on disk until the rollback truncates it)",
       src="persistence.rs", functions=FPS + [("persistence.rs", "append_batch_internal_with_rollback"), ("persistence.rs", "append_batch_internal")],
       bounds="one good frame; a one-entry batch whose fsync fails", assumptions=PA3, timeout=1500, replay="solver-only"),
    KH("O3.4/batch_short", "c03_o4_batch_short_write", "append_batch_internal_with_rollback: the batch write is cut after 7 bytes => Err and full restoration",
       src="persistence.rs", functions=FPS + [("persistence.rs", "append_batch_internal_with_rollback"), ("persistence.rs", "append_batch_internal")],
       bounds="one good frame; a one-entry batch cut after 7 bytes", assumptions=PA3, timeout=2400, replay="solver-only", tier="thorough"),
    KH("O3.4/retry", "c03_o4_retry_after_rollback", "after a rolled-back short write a fault-free retry yields exactly two well-formed durable frames",
       src="persistence.rs", functions=FPS, bounds="write cut after 10 bytes, then a clean retry", assumptions=PA3, timeout=1500, replay="solver-only", tier="thorough"),
]


def retried_unit_rolls_back(F):
    """Whatever WalWriter::append / append_batch hand to WalErrorHandler::write_with_retry is re-run after a failure; a failed
    attempt may have left part of a frame in the file, so the *retried unit itself* must restore the stable offset before it
    returns its error — otherwise the next attempt appends a whole frame behind the fragment and an acknowledged write is
    unreadable after restart.  Decided on the call graph below the retried closure (WalWriter methods only, depth <= 3):
    some function there calls rollback_to_stable_state / rollback_to_offset (reachability by z3), independent of helper names."""
    out = []
    for owner in ("append", "append_batch"):
        parent = P + "WalWriter::" + owner
        closures = [n for n in F if n.startswith(parent + "::{closure#") and n.count("{closure") == 1]
        units = []
        for c in closures:
            fn = F[c]
            if any(b.kind == "call" and re.search(r"= WalWriter::\w+\(", b.term or "") for b in fn.blocks.values() if not b.cleanup):
                units.append(c)
        pf = FnCheck(F, parent)
        if pf.fn is None:
            out.append(pf.missing())
            continue
        if pf.count(call(r"= WalErrorHandler::write_with_retry::", name="write_with_retry")) == 0:
            out.append(Result("inconclusive", "%s no longer goes through write_with_retry" % parent))
            continue
        if not units:
            out.append(Result("inconclusive", "no retried closure calling a WalWriter method found under %s" % parent))
            continue
        for c in units:
            seen, frontier, found = set(), [c], None
            for _depth in range(4):
                nxt = []
                for name in frontier:
                    fn = F.get(name)
                    if fn is None or name in seen:
                        continue
                    seen.add(name)
                    for b in fn.blocks.values():
                        if b.cleanup or b.kind != "call":
                            continue
                        m = re.search(r"= WalWriter::(\w+)\(", b.term or "")
                        if not m:
                            continue
                        if m.group(1) in ("rollback_to_stable_state", "rollback_to_offset"):
                            found = found or name
                        else:
                            nxt.append(P + "WalWriter::" + m.group(1))
                frontier = nxt
            if found is None:
                out.append(Result("violated", "the unit retried by WalWriter::%s (%s -> %s) never restores the stable offset: a short write followed by a successful retry leaves a frame fragment in front of the acknowledged "
                                  "entry (strict restart refuses the segment, best-effort drops the entry and everything after it)" % (owner, c.split("::")[-1], ", ".join(sorted(x.split("::")[-1] for x in seen if x != c)) or "?"),
                                  sample={"fn": c, "kind": "CALLGRAPH", "visited": sorted(x.split("::", 1)[-1] for x in seen)}))
            else:
                r = FnCheck(F, found).reachable(call(r"= WalWriter::rollback_to_(stable_state|offset)\(", name="rollback_to_stable_state"))
                r.detail = "retried unit of %s restores the stable state in %s: %s" % (owner, found.split("::")[-1], r.detail)
                out.append(r)
    return out


def _bulk_every_item(F):
    from props.C15 import bulk_load_every_item
    return bulk_load_every_item(F)


MOS.append(MO("O3.6/retried_unit", "WalWriter::append / append_batch: the closure re-run by write_with_retry restores the stable offset itself (some WalWriter method below it calls rollback_to_stable_state), so a retry never appends behind a frame fragment",
              retried_unit_rolls_back, functions=[("persistence.rs", "append"), ("persistence.rs", "append_batch"), ("persistence.rs", "write_with_retry")], role="retry-without-rollback"))
MOS.append(MO("O3.5/bulk_load_every_item", "TieredEngine::bulk_load_cold_tier: a refused item of a batch affects no other item — every item reaches HnswBackend::insert on its own and the counters follow the insert's result (same obligation as C15 O15.8)",
              _bulk_every_item, functions=[("tiered_engine.rs", "bulk_load_cold_tier")]))


def run(tier, seed, notes):
    obls = run_mir_obligations("C03", tier, MOS, notes)
    obls += run_kani_group("C03", tier, "lib", MODS, HARNESSES, jobs=6, notes=notes)
    obls += run_kani_group("C03", tier, "lib", {"persistence.rs": "persistence_proofs.rs"}, PERSIST_HARNESSES, support=("verif_fs",), elide_tracing=("persistence.rs",),
                           prepare=prepare_persistence_overlay, jobs=4, notes=notes)
    return obls
