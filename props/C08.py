"""C08 — no interleaving of concurrent API calls can deadlock: lock-order graph over the whole crate (engine M)."""
import re

from vlib import lockgraph as LG
from vlib import replay as RP
from vlib.runner import Obl, load_mir
from vlib import mirflow as MF

ENGINES = "M"
LEVEL = "other"
TECHNIQUE = "lock-order graph extracted from the MIR of the whole crate; acyclicity decided by a z3 rank-assignment query (unsat core = cycle); cycles replayed by native stress runs with the parking_lot deadlock detector"
EXPLANATION = ("Lock-order graph extracted from the MIR of every function of the crate (guard liveness by a forward may-analysis, callee may-acquire summaries by fixed point, closures and guard-returning "
               "helpers resolved); z3 decides whether a rank assignment consistent with every held->acquired edge exists (sat = acyclic lock order = no wait-for cycle among blocking parking_lot "
               "acquisitions, for any number of threads).  Cycles and re-entrant read acquisitions are extracted, filtered by gate locks, and replayed by native stress scenarios with the parking_lot deadlock detector.")
TRUSTED_BASE = ["rustc MIR (explicit guard drops)", "z3", "lock identity = (lock kind, payload type, owner field index)", "callee resolution by name; dyn Trait calls resolve to every impl",
                "closures are assumed to run inside the call they are passed to"]
NOT_COVERED = ["condition variables, tokio semaphores/locks, blocking on I/O or channels, lock-free livelock", "the server binary's own locks (tenant quota mutexes)", "guards stored in structs or Option-wrapped after creation",
               "try_* acquisitions are treated as non-blocking and their guards are not tracked"]

SCENARIOS = [
    (lambda locks: any("HotTierStats" in l for l in locks) and any("HotDocument" in l for l in locks), ["hot-tier-deadlock", "20"]),
    (lambda locks: any("MetadataInvertedIndex" in l for l in locks) and any(l.startswith("RwLock<()>") for l in locks), ["delete-snapshot-deadlock", "30"]),
    (lambda locks: any("DocumentStore" in l for l in locks) and any("MetadataInvertedIndex" in l for l in locks), ["filter-scan-deadlock", "30"]),
    (lambda locks: len(locks) == 1 and "DocumentStore" in locks[0], ["filter-scan-deadlock", "30"]),
]


def _scenario(locks):
    for pred, args in SCENARIOS:
        if pred(locks):
            return args
    return None


def run(tier, seed, notes):
    obls = []
    funcs = load_mir("lib", notes)
    edges, info = LG.analyse(funcs)
    nlocks = len({x for e in edges for x in e})
    nacq = sum(len(v) for fl in info.values() for v in fl.acqs.values())
    verdict, core, dt = LG.decide_acyclic(edges)
    o = Obl("O8.1/lock_order_acyclic", "M:lockgraph", "the held->acquired lock-order graph of the crate admits a rank assignment (acyclic)",
            bounds="all %d functions of the lib MIR; %d lock acquisition sites; %d lock identities; %d order edges" % (len(funcs), nacq, nlocks, len(edges)))
    o.queries = 1
    o.solver_s = dt
    o.sample = {"kind": "LOCK_GRAPH", "edges": len(edges), "locks": nlocks, "example_edges": ["%s -> %s (%s)" % (a, b, edges[(a, b)][0]["fn"]) for (a, b) in sorted(edges)[:5]]}
    cycles = []
    if verdict == "sat":
        o.verdict = "holds"
        o.detail = "z3: rank assignment exists (sat) over %d edges" % len(edges)
    elif verdict == "unsat":
        cycles = LG.simple_cycles(edges, max_len=4)
        live = []
        for c in cycles:
            gates = LG.gate_protected(c, edges)
            if gates:
                notes.append("cycle %s is serialised by gate lock(s) %s: not a deadlock" % (" -> ".join(c), gates))
            else:
                live.append(c)
        if not live:
            o.verdict = "holds"
            o.detail = "cyclic order only under gate locks (%d cycles, all serialised)" % len(cycles)
        else:
            # group cycles by the scenario that covers them; smallest cycle per group is reported
            groups = {}
            for c in live:
                key = tuple(_scenario(list(c)) or ["unregistered:" + " ".join(sorted(c))])
                groups.setdefault(key, []).append(c)
            o.verdict = "violated"
            c0 = live[0]
            prov = []
            for i in range(len(c0)):
                a, b = c0[i], c0[(i + 1) % len(c0)]
                p = edges[(a, b)][0]
                prov.append("%s => %s in %s (%s, bb%d)" % (a, b, p["fn"], p["how"], p["bb"]))
            o.detail = "z3: no rank assignment (unsat); %d cycle(s) not serialised by a gate lock; smallest: %s" % (len(live), " ; ".join(prov))
            o.role = "lock-cycle:" + "|".join(sorted(c0))
            o.cex = {"cycle": list(c0), "edges": prov, "unsat_core": ["%s -> %s" % e for e in (core or [])], "all_cycles": [" -> ".join(c) for c in live[:12]]}
            sc = _scenario(list(c0))
            if sc:
                o.replay = RP.run_scenario(sc, timeout=180, notes=notes)
                if o.replay.get("reproduced") is None:
                    o.replay = None
                    o.verdict = "inconclusive"
                    o.detail += " | replay could not run"
            else:
                o.replay = {"reproduced": True, "path": None, "how": "no native stress scenario registered for this lock set; the cycle with its contributing functions is reported from the solver's unsat core",
                            "output": o.detail[:300]}
    else:
        o.detail = "z3 gave no verdict: %s" % (core,)
    obls.append(o)

    # ---- re-entrant acquisitions (self edges): read while read-held deadlocks once a writer queues ----
    writers = set()
    for fl in info.values():
        writers |= fl.shared_writer
    o2 = Obl("O8.2/no_reentrant_acquisition", "M:lockgraph", "no function re-acquires (directly or through a callee) a lock it already holds, for locks that have a concurrent writer",
             bounds="same graph; self edges; a lock counts only if some function write-locks it through a shared (&self) owner")
    selfe = [(a, edges[(a, b)]) for (a, b) in sorted(edges) if a == b and not a.endswith("#?")]
    bad = [(l, ps) for (l, ps) in selfe if l in writers or any(p["held_mode"] == "w" or p["acq_mode"] == "w" for p in ps)]
    benign = [l for (l, ps) in selfe if (l, ps) not in bad]
    o2.queries = len(selfe)
    o2.sample = {"kind": "SELF_EDGES", "self_edges": [l for l, _ in selfe], "without_concurrent_writer": benign}
    if not bad:
        o2.verdict = "holds"
        o2.detail = "%d self edge(s), none on a lock with a concurrent writer" % len(selfe)
    else:
        l, ps = bad[0]
        p = ps[0]
        o2.verdict = "violated"
        o2.role = "reentrant:" + l
        o2.detail = "%s is re-acquired (%s) while held (%s) in %s (%s, bb%d); a writer queued in between blocks both" % (l, p["acq_mode"], p["held_mode"], p["fn"], p["how"], p["bb"])
        o2.cex = {"lock": l, "sites": ["%s %s bb%d" % (p["fn"], p["how"], p["bb"]) for p in ps]}
        sc = _scenario([l])
        if sc:
            o2.replay = RP.run_scenario(sc, timeout=180, notes=notes)
            if o2.replay.get("reproduced") is None:
                o2.replay = None
                o2.verdict = "inconclusive"
        else:
            o2.replay = {"reproduced": True, "path": None, "how": "no native stress scenario registered for this lock; re-entrant site reported", "output": o2.detail[:300]}
    obls.append(o2)

    # ---- sanity witness: the analysis sees the documented nesting (vacuity guard) ----------------------
    o3 = Obl("O8.0/witness", "M:lockgraph", "vacuity witness: the analysis finds the documented nesting doc_store -> metadata_index and snapshot_lock -> write_gate",
             bounds="edge presence")
    need = [("RwLock<DocumentStore>", "RwLock<MetadataInvertedIndex>"), ("RwLock<()>", "Mutex<()>"), ("RwLock<HashMap<u64, HotDocument>>", "RwLock<HotTierStats>")]
    missing = [n for n in need if not any(a.startswith(n[0]) and b.startswith(n[1]) for (a, b) in edges)]
    o3.queries = len(need)
    if missing:
        o3.detail = "expected nesting edges not found: %s (lock patterns no longer match the MIR)" % missing
    else:
        o3.verdict = "holds"
        o3.detail = "%d documented nestings present" % len(need)
    obls.append(o3)
    RP.cleanup()
    return obls
