"""C18 — unsafe durability and exposure settings are refused outside benchmark mode."""
from vlib.mo import *
from vlib.runner import KH, run_kani_group, run_mir_obligations

LEVEL = "other"
EXPLANATION = ("Kani/CBMC over the real KyroDbConfig::validate on KyroDbConfig::default() with every safety-relevant discrete setting symbolic (fsync policy, snapshot interval as any u64, recovery mode, "
               "cache strategy, auth, key file, rate limit, observability auth, fresh-start flag, TLS+cert/key, HTTP host class); the environment and bind-host strings are concrete per instance. "
               "The oracle is the property statement transcribed once.  mirflow: the server validates before constructing the engine.")
TRUSTED_BASE = ["Kani/CBMC", "stubs: std::fmt::format, Backtrace::capture, RandomState::new", "loopback class of each host literal given as a table in the harness"]
NOT_COVERED = ["values arriving through TOML/YAML/environment (the config crate's deserialiser)", "host/environment strings other than the literal table", "the remaining (non-safety) settings are the defaults"]

ROWS = [("pilot_lo", "quick"), ("pilot_any", "quick"), ("pilot_mixedcase_any", "quick"), ("pilot_upper_lo", "thorough"), ("production_lo", "thorough"), ("production_any", "quick"),
        ("production_upper_lan", "quick"), ("production_v6", "thorough"), ("production_padded_lo", "thorough"), ("benchmark_any", "thorough"), ("invalid_env", "thorough"), ("empty_env", "thorough")]
F = [("config.rs", "validate"), ("config.rs", "is_loopback_host")]
HARNESSES = [KH("O18.1/" + r, "c18_" + r, "validate() accepts only configurations allowed by the property statement (row %s)" % r, src="config.rs", functions=F,
                bounds="environment/host literals of row %s; 13 symbolic settings incl. snapshot interval over all u64" % r, tier=t, timeout=900) for r, t in ROWS]


def run(tier, seed, notes):
    return run_kani_group("C18", tier, "lib", {"config.rs": "config_proofs.rs"}, HARNESSES, jobs=8, notes=notes)
