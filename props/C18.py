"""C18 — unsafe durability and exposure settings are refused outside benchmark mode."""
from vlib.mo import *
from vlib.runner import KH, run_kani_group, run_mir_obligations

LEVEL = "other"
EXPLANATION = ("Kani/CBMC over the real KyroDbConfig::validate on KyroDbConfig::default() with every safety-relevant discrete setting symbolic (fsync policy, snapshot interval as any u64, recovery mode, "
               "cache strategy, auth, key file, rate limit, observability auth, fresh-start flag, TLS+cert/key, HTTP host class); the environment and bind-host strings are concrete per instance. "
               "The oracle is the property statement transcribed once.  mirflow: the server validates before constructing the engine.")
TRUSTED_BASE = ["Kani/CBMC", "stubs: std::fmt::format, Backtrace::capture, RandomState::new", "loopback class of each host literal given as a table in the harness"]
NOT_COVERED = ["values arriving through TOML/YAML/environment (the config crate's deserialiser)", "host/environment strings other than the literal table", "the remaining (non-safety) settings are the defaults"]

ROWS = [("pilot_lo", "thorough"), ("pilot_any", "thorough"), ("pilot_mixedcase_any", "thorough"), ("pilot_upper_lo", "thorough"), ("production_lo", "thorough"), ("production_any", "thorough"),
        ("production_upper_lan", "thorough"), ("production_v6", "thorough"), ("production_padded_lo", "thorough"), ("benchmark_any", "thorough"), ("invalid_env", "thorough"), ("empty_env", "thorough")]
F = [("config.rs", "validate"), ("config.rs", "is_loopback_host")]
HARNESSES = [KH("O18.1/" + r, "c18_" + r, "validate() accepts only configurations allowed by the property statement (row %s)" % r, src="config.rs", functions=F,
                bounds="environment/host literals of row %s; 13 symbolic settings incl. snapshot interval over all u64" % r, tier=t, timeout=1500,
                expect_covers=(1 if r in ("invalid_env", "empty_env") else None))  # an unknown / empty environment name is always rejected: only the "rejected" cover is satisfiable
             for r, t in ROWS]


V = "config::KyroDbConfig::validate"
ENVCMP = r"^call <String as PartialEq<&str>>::(eq|ne)\("
NONBENCH = Arm(ENVCMP, {"otherwise"}, name='environment_type != "benchmark"', nth=0)
PILOT = Arm(ENVCMP, {"otherwise"}, name='environment_type == "pilot"', nth=1)
PROD = Arm(ENVCMP, {"otherwise"}, name='environment_type == "production"', nth=2)
OK = stmt(r"^_0 = Result::<\(\), anyhow::Error>::Ok\(", name="return Ok(())")
FLD = lambda path: r"\(\(\(\*\{arg\(_1: &KyroDbConfig\)\}\)\." + path


def env_normalised(F):
    """Every comparison of the environment against a literal uses the trimmed, lower-cased string."""
    from vlib.mirflow import origin as _o
    import re as _re
    fc = FnCheck(F, V)
    if fc.fn is None:
        return fc.missing()
    cmps = []
    for idx in sorted(fc.fn.blocks):
        b = fc.fn.blocks[idx]
        if b.cleanup or b.kind != "switch":
            continue
        o = _o(fc.fn, b.switch_local)
        if _re.search(ENVCMP, o):
            cmps.append((idx, o))
    if len(cmps) != 3:
        return Result("inconclusive", "expected 3 environment comparisons in validate, found %d" % len(cmps))
    bad = [(i, o) for i, o in cmps if "to_ascii_lowercase" not in o]
    r = fc.reachable(OK)
    if bad:
        return Result("violated", "environment compared without normalisation at bb%d: %s (a spelling such as 'PILOT' or ' pilot ' passes the name check but skips this branch)" % (bad[0][0], bad[0][1][:160]),
                      queries=r.queries, seconds=r.seconds, sample={"fn": fc.name, "kind": "PROVENANCE", "comparisons": [o[:120] for _i, o in cmps]})
    return Result("holds", "3 comparisons, all on trim().to_ascii_lowercase()", queries=r.queries, seconds=r.seconds, sample={"fn": fc.name, "kind": "PROVENANCE", "comparisons": [o[:120] for _i, o in cmps]})


def hosts_examined(F):
    """Which host does each is_loopback_host decision in validate look at?  Block order: pilot TLS rule, production gRPC
    rule, production HTTP rule.  The first two must examine `server.host` itself, the third the HTTP host (explicit
    `http_host` falling back to `server.host`)."""
    from vlib.mirflow import origin as _o
    import re as _re
    fc = FnCheck(F, V)
    if fc.fn is None:
        return fc.missing()
    hi = field_index("config.rs", "ServerConfig", "host")
    hh = field_index("config.rs", "ServerConfig", "http_host")
    if hi is None or hh is None:
        return Result("inconclusive", "ServerConfig.host / http_host not found in config.rs")
    sw = []
    for idx in sorted(fc.fn.blocks):
        b = fc.fn.blocks[idx]
        if b.cleanup or b.kind != "switch":
            continue
        o = _o(fc.fn, b.switch_local)
        if "is_loopback_host(" in o:
            sw.append((idx, o))
    if len(sw) != 3:
        return Result("inconclusive", "expected 3 is_loopback_host decisions in validate, found %d" % len(sw))
    grpc = r"call (config::)?is_loopback_host\(deref\(&\(\(\(\*\{arg\(_1: &KyroDbConfig\)\}\)\.\d+: config::ServerConfig\)\.%d: String\)\)\)" % hi
    r = fc.reachable(OK)
    smp = {"fn": fc.name, "kind": "PROVENANCE", "decisions": [o[:160] for _i, o in sw], "ServerConfig.host": hi, "ServerConfig.http_host": hh}
    names = ("pilot TLS rule", "production gRPC rule")
    for k in (0, 1):
        if not _re.search(grpc, sw[k][1]):
            return Result("violated", "%s (bb%d) decides on `%s`, not on the gRPC bind host server.host: a configuration whose gRPC host is exposed is judged by another address" % (names[k], sw[k][0], sw[k][1][:160]),
                          queries=r.queries, seconds=r.seconds, sample=smp)
    # HTTP rule: the argument flows from Option::unwrap_or over server.http_host with server.host as the default, or from the accessor
    o3 = sw[2][1]
    ok3 = bool(_re.search(r"is_loopback_host\(call (Option::<&str>::unwrap_or|(config::)?KyroDbConfig::http_host)", o3))
    if not ok3:
        return Result("violated", "production HTTP rule (bb%d) decides on `%s`, not on the HTTP host (http_host or, if unset, server.host)" % (sw[2][0], o3[:160]), queries=r.queries, seconds=r.seconds, sample=smp)
    return Result("holds", "pilot and production gRPC rules examine server.host; production HTTP rule examines the HTTP host", queries=r.queries, seconds=r.seconds, sample=smp)


MOS = [
    MO("O18.3/hosts", "validate: the pilot TLS rule and the production gRPC rule decide on the gRPC bind host (server.host); the production HTTP rule decides on the HTTP host (MIR def-use provenance; reachability by z3)",
       hosts_examined, functions=[("config.rs", "validate")]),
    MO("O18.3/normalised", "validate: the environment name is trimmed and lower-cased once and every branch decision (benchmark / pilot / production) is taken on that normalised value", env_normalised,
       functions=[("config.rs", "validate")]),
    MO("O18.3/durability", "validate: outside benchmark, Ok is reachable only with cache strategy Learned, fsync policy != None, snapshot interval != 0, recovery mode Strict",
       allof(never(V, OK, assume=[NONBENCH, Arm(r"^discr\(" + FLD(r"\d+: config::CacheConfig\)\.\d+: config::CacheStrategy\)\)$"), {"otherwise"}, name="strategy != Learned")]),
             never(V, OK, assume=[NONBENCH, Arm(r"^discr\(" + FLD(r"\d+: config::PersistenceConfig\)\.\d+: config::FsyncPolicy\)\)$"), {"0"}, name="fsync_policy == None")]),
             never(V, OK, assume=[NONBENCH, Arm(r"^Eq\(" + FLD(r"\d+: config::PersistenceConfig\)\.\d+: u64\), const 0_u64\)$"), {"otherwise"}, name="snapshot_interval_mutations == 0")]),
             never(V, OK, assume=[NONBENCH, Arm(r"^discr\(" + FLD(r"\d+: config::PersistenceConfig\)\.\d+: config::RecoveryMode\)\)$"), {"1"}, name="recovery_mode == BestEffort")])),
       functions=[("config.rs", "validate")]),
    MO("O18.3/pilot", "validate: in pilot, Ok is reachable only with auth, rate limiting, protected observability, no fresh start, and TLS or a loopback bind",
       allof(never(V, OK, assume=[PILOT, Arm(r"^ensure_not\(" + FLD(r"\d+: config::AuthConfig\)\.0: bool\)\)$"), {"otherwise"}, name="auth.enabled == false", nth=0)]),
             never(V, OK, assume=[PILOT, Arm(r"^ensure_not\(" + FLD(r"\d+: config::RateLimitConfig\)\.0: bool\)\)$"), {"otherwise"}, name="rate_limit.enabled == false")]),
             never(V, OK, assume=[PILOT, Arm(r"^ensure_not\(call <ObservabilityAuthMode as PartialEq>::ne\)$", {"otherwise"}, name="observability_auth == Disabled", nth=0)]),
             never(V, OK, assume=[PILOT, Arm(r"^ensure_not\(not\(" + FLD(r"\d+: config::PersistenceConfig\)\.\d+: bool\)\)\)$"), {"otherwise"}, name="allow_fresh_start_on_recovery_failure == true")]),
             never(V, OK, assume=[PILOT, Arm(r"^\(" + FLD(r"\d+: config::ServerConfig\)\.\d+: config::TlsConfig\)\.0: bool\)$"), {"0"}, name="tls.enabled == false", nth=0),
                                  Arm(r"^ensure_not\(alt\(call (config::)?is_loopback_host\(.*\) \| const true\)\)$", {"otherwise"}, name="host is not loopback")])),
       functions=[("config.rs", "validate")]),
    MO("O18.3/production", "validate: in production a non-loopback gRPC bind requires auth; a non-loopback HTTP bind requires protected observability",
       allof(never(V, OK, assume=[PROD, Arm(r"^call (config::)?is_loopback_host\(", {"0"}, name="gRPC host not loopback", nth=0),
                                  Arm(r"^ensure_not\(" + FLD(r"\d+: config::AuthConfig\)\.0: bool\)\)$"), {"otherwise"}, name="auth.enabled == false", nth=1)]),
             never(V, OK, assume=[PROD, Arm(r"^call (config::)?is_loopback_host\(", {"0"}, name="HTTP host not loopback", nth=1),
                                  Arm(r"^ensure_not\(call <ObservabilityAuthMode as PartialEq>::ne\)$", {"otherwise"}, name="observability_auth == Disabled", nth=1)])),
       functions=[("config.rs", "validate")]),
    MO("O18.3/loopback", "is_loopback_host: true only for ::1, localhost or a 127. prefix of the trimmed, unbracketed, zone-stripped, lower-cased host; empty is false",
       allof(only_via("config::is_loopback_host", stmt(r"^_0 = const true;$", name="return true"), Arm(r"^call core::str::<impl str>::is_empty$", {"0"}, name="host not empty")),
             lambda F: FnCheck(F, "config::is_loopback_host").reachable(call(r"to_ascii_lowercase\(", name="to_ascii_lowercase")),
             lambda F: FnCheck(F, "config::is_loopback_host").reachable(call(r"starts_with::<&str>\(", name='starts_with("127.")'))),
       functions=[("config.rs", "is_loopback_host")]),
]


MAIN = "main::{closure#0}"
VALID_OK = Arm(r"^discr\(try\(call KyroDbConfig::validate\)\)$", {"0"}, name="config.validate()? -> Ok")
MOS.append(MO("O18.4/server_refuses", "server main: KyroDbConfig::load then validate succeed before any engine is recovered or created, before the auth manager is loaded and before any listener is bound (a rejected configuration cannot start the server)",
              allof(precedes(MAIN, call(r"= KyroDbConfig::load\(", name="KyroDbConfig::load"), call(r"= KyroDbConfig::validate\(", name="KyroDbConfig::validate")),
                    only_via(MAIN, call(r"= TieredEngine::recover::", name="TieredEngine::recover"), VALID_OK),
                    only_via(MAIN, call(r"= AuthManager::load_from_file", name="AuthManager::load_from_file"), VALID_OK),
                    only_via(MAIN, call(r"TcpListener::bind|Server::builder|= tonic::transport::Server", name="network listener / gRPC server construction"), VALID_OK)),
              functions=[("bin/kyrodb_server.rs", "main")], target="kyrodb_server"))


def run(tier, seed, notes):
    obls = run_mir_obligations("C18", tier, MOS, notes)
    obls += run_kani_group("C18", tier, "lib", {"config.rs": "config_proofs.rs"}, HARNESSES, jobs=8, notes=notes, harness_timeout=(900 if tier == "quick" else 2400))
    return obls
