"""C18 — unsafe durability and exposure settings are refused outside benchmark mode."""
from vlib.mo import *
import re
from vlib.runner import KH, run_kani_group, run_mir_obligations

LEVEL = "other"
EXPLANATION = ("Kani/CBMC over the real KyroDbConfig::validate on KyroDbConfig::default() with every safety-relevant discrete setting symbolic (fsync policy, snapshot interval as any u64, recovery mode, "
               "cache strategy, auth, key file, rate limit, observability auth, fresh-start flag, TLS+cert/key, HTTP host class); the environment and bind-host strings are concrete per instance. "
               "The oracle is the property statement transcribed once.  mirflow: the server validates before constructing the engine.")
TRUSTED_BASE = ["Kani/CBMC", "stubs: std::fmt::format, Backtrace::capture, RandomState::new", "loopback class of each host literal given as a table in the harness"]
NOT_COVERED = ["values arriving through TOML/YAML/environment (the config crate's deserialiser)", "host/environment strings other than the literal table", "the remaining (non-safety) settings are the defaults"]

# The five production_* rows (production_lo / _any / _upper_lan / _v6 / _padded_lo) run out of memory at the 14 GB per-process cap even
# when C18 is the only job on the machine; they are not part of any tier.  The production rules are decided value-level by the
# DECIDES obligation O18.2/decision (quick tier); the harness source stays in harness/config_proofs.rs.
ROWS = [("pilot_lo", "thorough"), ("pilot_any", "thorough"), ("pilot_mixedcase_any", "thorough"), ("pilot_upper_lo", "thorough"), ("benchmark_any", "thorough"), ("invalid_env", "thorough"), ("empty_env", "thorough")]
F = [("config.rs", "validate"), ("config.rs", "is_loopback_host")]
HARNESSES = [KH("O18.1/" + r, "c18_" + r, "validate() accepts only configurations allowed by the property statement (row %s)" % r, src="config.rs", functions=F,
                bounds="environment/host literals of row %s; 13 symbolic settings incl. snapshot interval over all u64" % r, tier=t, timeout=1500,
                expect_covers=(1 if r in ("invalid_env", "empty_env") else None))  # an unknown / empty environment name is always rejected: only the "rejected" cover is satisfiable
             for r, t in ROWS]


V = "config::KyroDbConfig::validate"
ENVCMP = r"^call <String as PartialEq<&str>>::(eq|ne)\("
NONBENCH = Arm(ENVCMP, {"otherwise"}, name='environment_type != "benchmark"', nth=0)
PILOT = Arm(ENVCMP, {"otherwise"}, name='environment_type == "pilot"', nth=1)
PROD = Arm(ENVCMP, {"otherwise"}, name='environment_type == "production"', nth=2)
OK = stmt(r"^_0 = Result::<\(\), anyhow::Error>::Ok\(", name="return Ok(())")
FLD = lambda path: r"\(\(\(\*\{arg\(_1: &KyroDbConfig\)\}\)\." + path


def env_comparisons(fn, tagged=False):
    """Every decision of validate that compares the environment name with a string literal: [(switch block, provenance text,
    'eq'|'ne', literal)].  The literal is read from the `&&str` promoted constant the comparison call receives."""
    import vlib.mir as _M
    from vlib import mirflow as MF
    out = []
    calls = {}
    for idx, b in fn.blocks.items():
        if b.cleanup or b.kind != "call" or not re.search(r"<(std::string::)?String as PartialEq<&str>>::(eq|ne)", b.term or ""):
            continue
        a = _M._split_top(b.args)
        lit = None
        m = re.match(r"^(?:move |copy )?(_\d+)$", a[1].strip()) if len(a) > 1 else None
        if m:
            for (_b, _i, rhs) in (fn.build_defs().get(m.group(1)) or []):
                pm = re.search(r"::promoted\[(\d+)\]$", rhs)
                if pm:
                    lit = _M.PROMOTED_STR.get((fn.name, int(pm.group(1))))
        calls[b.dest] = (idx, "ne" if "::ne(" in (b.term or "") else "eq", lit)
    old = MF.SITE_TAGS
    MF.SITE_TAGS = tagged
    try:
        for idx in sorted(fn.blocks):
            b = fn.blocks[idx]
            if b.cleanup or b.kind != "switch":
                continue
            o = MF.origin(fn, b.switch_local)
            from vlib import mirdec as MD
            if re.search(ENVCMP, MD._untag(o)):
                loc = re.match(r"^(?:move |copy )?(_\d+)$", (b.switch_local or "").strip())
                c = calls.get(loc.group(1)) if loc else None
                out.append((idx, o, c[1] if c else None, c[2] if c else None))
    finally:
        MF.SITE_TAGS = old
    return out


def env_normalised(F):
    """Every comparison of the environment against a literal uses the trimmed, lower-cased string."""
    from vlib.mirflow import origin as _o
    import re as _re
    fc = FnCheck(F, V)
    if fc.fn is None:
        return fc.missing()
    cmps = [(i, o) for (i, o, _k, _l) in env_comparisons(fc.fn)]
    if not cmps:
        return Result("inconclusive", "no comparison of the environment name in validate")
    bad = [(i, o) for i, o in cmps if "to_ascii_lowercase" not in o]
    r = fc.reachable(OK)
    if bad:
        return Result("violated", "environment compared without normalisation at bb%d: %s (a spelling such as 'PILOT' or ' pilot ' passes the name check but skips this branch)" % (bad[0][0], bad[0][1][:160]),
                      queries=r.queries, seconds=r.seconds, sample={"fn": fc.name, "kind": "PROVENANCE", "comparisons": [o[:120] for _i, o in cmps]})
    return Result("holds", "%d comparisons, all on trim().to_ascii_lowercase()" % len(cmps), queries=r.queries, seconds=r.seconds, sample={"fn": fc.name, "kind": "PROVENANCE", "comparisons": [o[:120] for _i, o in cmps]})


def hosts_examined(F):
    """Which host does each is_loopback_host decision in validate look at?  Block order: pilot TLS rule, production gRPC
    rule, production HTTP rule.  The first two must examine `server.host` itself, the third the HTTP host (explicit
    `http_host` falling back to `server.host`)."""
    from vlib.mirflow import origin as _o
    import re as _re
    fc = FnCheck(F, V)
    if fc.fn is None:
        return fc.missing()
    hi = field_index("config.rs", "ServerConfig", "host")
    hh = field_index("config.rs", "ServerConfig", "http_host")
    if hi is None or hh is None:
        return Result("inconclusive", "ServerConfig.host / http_host not found in config.rs")
    sw = []
    for idx in sorted(fc.fn.blocks):
        b = fc.fn.blocks[idx]
        if b.cleanup or b.kind != "switch":
            continue
        o = _o(fc.fn, b.switch_local)
        if "is_loopback_host(" in o:
            sw.append((idx, o))
    if len(sw) != 3:
        return Result("inconclusive", "expected 3 is_loopback_host decisions in validate, found %d" % len(sw))
    grpc = r"call (config::)?is_loopback_host\(deref\(&\(\(\(\*\{arg\(_1: &KyroDbConfig\)\}\)\.\d+: config::ServerConfig\)\.%d: String\)\)\)" % hi
    r = fc.reachable(OK)
    smp = {"fn": fc.name, "kind": "PROVENANCE", "decisions": [o[:160] for _i, o in sw], "ServerConfig.host": hi, "ServerConfig.http_host": hh}
    names = ("pilot TLS rule", "production gRPC rule")
    for k in (0, 1):
        if not _re.search(grpc, sw[k][1]):
            return Result("violated", "%s (bb%d) decides on `%s`, not on the gRPC bind host server.host: a configuration whose gRPC host is exposed is judged by another address" % (names[k], sw[k][0], sw[k][1][:160]),
                          queries=r.queries, seconds=r.seconds, sample=smp)
    # HTTP rule: the argument flows from Option::unwrap_or over server.http_host with server.host as the default, or from the accessor
    o3 = sw[2][1]
    ok3 = bool(_re.search(r"is_loopback_host\(call (Option::<&str>::unwrap_or|(config::)?KyroDbConfig::http_host)", o3))
    if not ok3:
        return Result("violated", "production HTTP rule (bb%d) decides on `%s`, not on the HTTP host (http_host or, if unset, server.host)" % (sw[2][0], o3[:160]), queries=r.queries, seconds=r.seconds, sample=smp)
    return Result("holds", "pilot and production gRPC rules examine server.host; production HTTP rule examines the HTTP host", queries=r.queries, seconds=r.seconds, sample=smp)


def validate_decision(F):
    """The whole accept/reject decision of KyroDbConfig::validate, extracted from its MIR (DECIDES), implies the property's
    predicate for every value of the safety-relevant settings:
        Ok  =>  (benchmark  or  (strategy == Learned and fsync != None and snapshot interval != 0 and recovery != BestEffort))
            and (pilot      =>  auth and rate limiting and protected observability and no fresh start and (TLS or loopback gRPC host))
            and (production =>  (loopback gRPC host or auth) and (loopback HTTP host or protected observability))
    Opaque here (decided elsewhere): what the three environment comparisons compare (O18.3/normalised: the normalised
    name, in the order benchmark / pilot / production), which host each is_loopback_host call examines (O18.3/hosts) and
    is_loopback_host itself (O18.3/loopback, Kani O18.1)."""
    from vlib import mirdec as MD
    from vlib import mirflow as MF
    fc = FnCheck(F, V)
    if fc.fn is None:
        return [fc.missing()]
    fn = fc.fn
    vi = {"learned": variant_index("config.rs", "CacheStrategy", "Learned"), "fs_none": variant_index("config.rs", "FsyncPolicy", "None"),
          "best_effort": variant_index("config.rs", "RecoveryMode", "BestEffort")}
    fi = {"interval": field_index("config.rs", "PersistenceConfig", "snapshot_interval_mutations"), "fresh": field_index("config.rs", "PersistenceConfig", "allow_fresh_start_on_recovery_failure"),
          "auth": field_index("config.rs", "AuthConfig", "enabled"), "rl": field_index("config.rs", "RateLimitConfig", "enabled"), "tls": field_index("config.rs", "TlsConfig", "enabled")}
    if None in vi.values() or None in fi.values():
        return [Result("inconclusive", "enum variants / struct fields of the configuration not found: %r %r" % (vi, fi))]
    # every environment comparison, keyed by its call-site tag, with the literal it compares against
    envs = env_comparisons(fn, tagged=True)
    if not envs or any(k is None or l is None for (_i, _o, k, l) in envs):
        return [Result("inconclusive", "environment comparisons of validate not resolved to literals: %s" % [(i_, k, l) for (i_, _o, k, l) in envs])]
    unknown = sorted(set(l for (_i, _o, _k, l) in envs) - {"benchmark", "pilot", "production"})
    if unknown:
        return [Result("inconclusive", "validate compares the environment with %s, which the property does not name" % unknown)]
    CFG = r"\(\(\(\*\{arg\(_1: &KyroDbConfig\)\}\)\.\d+: config::"
    env_atoms = [("env%d" % n, ENVCMP, re.escape(o)) for n, (_i, o, _k, _l) in enumerate(envs)]
    atoms = env_atoms + [
             ("strategy", r"^discr:" + CFG + r"CacheConfig\)\.\d+: config::CacheStrategy\)$"), ("fsync", r"^discr:" + CFG + r"PersistenceConfig\)\.\d+: config::FsyncPolicy\)$"),
             ("recovery", r"^discr:" + CFG + r"PersistenceConfig\)\.\d+: config::RecoveryMode\)$"),
             ("interval", "^" + CFG + r"PersistenceConfig\)\.%d: u64\)$" % fi["interval"]), ("fresh", "^" + CFG + r"PersistenceConfig\)\.%d: bool\)$" % fi["fresh"]),
             ("auth", "^" + CFG + r"AuthConfig\)\.%d: bool\)$" % fi["auth"]), ("rl", "^" + CFG + r"RateLimitConfig\)\.%d: bool\)$" % fi["rl"]),
             ("tls", r"^\(" + CFG + r"ServerConfig\)\.\d+: config::TlsConfig\)\.%d: bool\)$" % fi["tls"]),
             ("obs_protected", r"^call <ObservabilityAuthMode as PartialEq>::ne$", None, "pure"),
             ("lo_grpc", r"^call (config::)?is_loopback_host\(deref\(&\(\(\(\*\{arg\(_1: &KyroDbConfig\)\}\)\.\d+: config::ServerConfig\)\.\d+: String\)\)\)$", None, "pure"),
             ("lo_http", r"^call (config::)?is_loopback_host\(call Option::<&str>::unwrap_or\)$", None, "pure")]
    # one truth value per literal: comparison n says `is_<literal>` (eq) or its negation (ne); all comparisons are taken on the
    # same normalised string (O18.3/normalised), so comparisons with the same literal agree
    lits = {"benchmark": "is_bench", "pilot": "is_pilot", "production": "is_prod"}
    link = " ".join("(= env%d %s)" % (n, lits[l] if k == "eq" else "(not %s)" % lits[l]) for n, (_i, _o, k, l) in enumerate(envs))
    link += " (not (and is_bench is_pilot)) (not (and is_bench is_prod)) (not (and is_pilot is_prod))"  # one name cannot equal two literals
    bench, pilot, prod = "is_bench", "is_pilot", "is_prod"
    safe = ("(and (or %s (and (= strategy %d) (distinct fsync %d) (distinct interval 0) (distinct recovery %d))) "
            "(=> %s (and auth rl obs_protected (not fresh) (or tls lo_grpc))) "
            "(=> %s (and (or lo_grpc auth) (or lo_http obs_protected))))") % (bench, vi["learned"], vi["fs_none"], vi["best_effort"], pilot, prod)
    atoms += [("is_bench", r"(?!)"), ("is_pilot", r"(?!)"), ("is_prod", r"(?!)")]  # spec-level names, tied to the comparisons by `assume`
    return MD.decides(F, V, "entry", {"ok": OK}, atoms, {"ok": ("=>", safe)}, assume="(and %s)" % link,
                      declare=tuple(a[0] for a in env_atoms) + ("is_bench", "is_pilot", "is_prod", "fresh", "auth", "rl", "tls", "obs_protected", "lo_grpc", "lo_http"),
                      what="KyroDbConfig::validate returns Ok only for configurations the property allows")


MOS = [
    MO("O18.2/decision", "validate: Ok implies the property's whole predicate (durability outside benchmark; pilot and production exposure rules) for every value of the 13 safety-relevant settings — the accept/reject "
       "decision is extracted from the MIR and compared by z3 (DECIDES)", validate_decision, functions=[("config.rs", "validate")]),
    MO("O18.3/hosts", "validate: the pilot TLS rule and the production gRPC rule decide on the gRPC bind host (server.host); the production HTTP rule decides on the HTTP host (MIR def-use provenance; reachability by z3)",
       hosts_examined, functions=[("config.rs", "validate")]),
    MO("O18.3/normalised", "validate: the environment name is trimmed and lower-cased once and every branch decision (benchmark / pilot / production) is taken on that normalised value", env_normalised,
       functions=[("config.rs", "validate")]),
    # (O18.3/durability, /pilot, /production — arm-by-arm NEVER obligations over regex-selected switches — were subsumed by the
    #  value-level O18.2/decision and removed: on a benign re-formulation of a test they went inconclusive)
    MO("O18.3/loopback", "is_loopback_host: true only for ::1, localhost or a 127. prefix of the trimmed, unbracketed, zone-stripped, lower-cased host; empty is false",
       allof(only_via("config::is_loopback_host", stmt(r"^_0 = const true;$", name="return true"), Arm(r"^call core::str::<impl str>::is_empty$", {"0"}, name="host not empty")),
             lambda F: FnCheck(F, "config::is_loopback_host").reachable(call(r"to_ascii_lowercase\(", name="to_ascii_lowercase")),
             lambda F: FnCheck(F, "config::is_loopback_host").reachable(call(r"starts_with::<&str>\(", name='starts_with("127.")'))),
       functions=[("config.rs", "is_loopback_host")]),
]


MAIN = "main::{closure#0}"
VALID_OK = Arm(r"^discr\(try\(call KyroDbConfig::validate\)\)$", {"0"}, name="config.validate()? -> Ok")
MOS.append(MO("O18.4/server_refuses", "server main: KyroDbConfig::load then validate succeed before any engine is recovered or created, before the auth manager is loaded and before any listener is bound (a rejected configuration cannot start the server)",
              allof(precedes(MAIN, call(r"= KyroDbConfig::load\(", name="KyroDbConfig::load"), call(r"= KyroDbConfig::validate\(", name="KyroDbConfig::validate")),
                    only_via(MAIN, call(r"= TieredEngine::recover::", name="TieredEngine::recover"), VALID_OK),
                    only_via(MAIN, call(r"= AuthManager::load_from_file", name="AuthManager::load_from_file"), VALID_OK),
                    only_via(MAIN, call(r"TcpListener::bind|Server::builder|= tonic::transport::Server", name="network listener / gRPC server construction"), VALID_OK)),
              functions=[("bin/kyrodb_server.rs", "main")], target="kyrodb_server"))


def run(tier, seed, notes):
    obls = run_mir_obligations("C18", tier, MOS, notes)
    obls += run_kani_group("C18", tier, "lib", {"config.rs": "config_proofs.rs"}, HARNESSES, jobs=8, notes=notes, harness_timeout=(900 if tier == "quick" else 2400))
    return obls
