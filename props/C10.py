"""C10 — tenants are isolated (id mapping arithmetic in the server binary; MIR obligations on RPC bodies)."""
from vlib.runner import KH, run_kani_group

ENGINES = "K"
LEVEL = "other"
EXPLANATION = "Kani/CBMC: pure 64-bit bit-vector queries over the real TenantIdMapper functions compiled inside the server binary (all tenant/local id pairs)."
TRUSTED_BASE = ["Kani 0.68 MIR->goto translation", "CBMC 6.11 + CaDiCaL", "stub: std::fmt::format (Status message text)"]
NOT_COVERED = ["end-to-end RPC sequences", "cache reuse across tenants through the running server", "/usage endpoint", "query_cache_scope collision-freeness (64-bit hash)",
               "AuthManager::validate and sanitize_public_metadata (std HashMap iteration is beyond CBMC here: probe > 7 min)"]
F = [("bin/kyrodb_server.rs", "to_global_doc_id"), ("bin/kyrodb_server.rs", "is_tenant_doc_id"), ("bin/kyrodb_server.rs", "to_local_doc_id")]
HARNESSES = [
    KH("O10.1/map", "c10_o1_tenant_id_mapper", "to_global_doc_id: Ok iff local<=u32::MAX; distinct (tenant,local) pairs never collide; round trip; foreign ids never attributed",
       src="bin/kyrodb_server.rs", functions=F, bounds="all (t1,l1,t2,l2) in u32 x u64 x u32 x u64"),
    KH("O10.1/foreign", "c10_o1_foreign_global_id", "is_tenant_doc_id/to_local_doc_id on an arbitrary 64-bit global id", src="bin/kyrodb_server.rs", functions=F,
       bounds="all (t,g) in u32 x u64"),
]


def run(tier, seed, notes):
    return run_kani_group("C10", tier, "kyrodb_server", {"bin/kyrodb_server.rs": "bin_kyrodb_server_proofs.rs"}, HARNESSES, jobs=4, notes=notes)
