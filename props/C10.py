"""C10 — tenants are isolated (id mapping arithmetic in the server binary; MIR obligations on RPC bodies)."""
from vlib.mo import *
import re
from vlib.runner import KH, run_kani_group, run_mir_obligations

LEVEL = "other"
EXPLANATION = ("Kani/CBMC: pure 64-bit bit-vector queries over the real TenantIdMapper functions compiled inside the server binary (all tenant/local id pairs).  mirflow/z3 over the server binary's MIR "
               "(async RPC bodies rebuilt from their coroutine state machines): every data RPC resolves the tenant, enforces the rate limit and maps ids through the range-checked map_doc_id before any engine call; "
               "reserved keys are removed before the server-owned values are written; ownership metadata is read before a document is served, deleted or updated.")
TRUSTED_BASE = ["Kani 0.68 MIR->goto translation", "CBMC 6.11 + CaDiCaL", "stub: std::fmt::format (Status message text)"]
NOT_COVERED = ["end-to-end RPC sequences", "string equality of the ownership comparison at run time (its operands and its effect on control flow are decided by O10.4/ownership_test)", "cache reuse across tenants through the running server", "/usage endpoint", "query_cache_scope collision-freeness (64-bit hash)",
               "AuthManager::validate and sanitize_public_metadata (std HashMap iteration is beyond CBMC here: probe > 7 min)"]
F = [("bin/kyrodb_server.rs", "to_global_doc_id"), ("bin/kyrodb_server.rs", "is_tenant_doc_id"), ("bin/kyrodb_server.rs", "to_local_doc_id")]
HARNESSES = [
    KH("O10.1/map", "c10_o1_tenant_id_mapper", "to_global_doc_id: Ok iff local<=u32::MAX; distinct (tenant,local) pairs never collide; round trip; foreign ids never attributed",
       src="bin/kyrodb_server.rs", functions=F, bounds="all (t1,l1,t2,l2) in u32 x u64 x u32 x u64"),
    KH("O10.1/foreign", "c10_o1_foreign_global_id", "is_tenant_doc_id/to_local_doc_id on an arbitrary 64-bit global id", src="bin/kyrodb_server.rs", functions=F,
       bounds="all (t,g) in u32 x u64"),
]


RPC = lambda name: "<KyroDBServiceImpl as KyroDbService>::%s::{closure#0}::{closure#0}" % name
TENANT_CTX = call(r"= KyroDBServiceImpl::tenant_context(::<[^(]*>)?\(", name="tenant_context")
RATE = call(r"= KyroDBServiceImpl::enforce_rate_limit\(", name="enforce_rate_limit")
MAP_ID = call(r"= KyroDBServiceImpl::map_doc_id\(", name="map_doc_id (range-checked tenant id mapping)")
ENGINE = call(r"= TieredEngine::(insert|bulk_load_cold_tier|delete|batch_delete|batch_delete_by_metadata_filter|update_metadata|query_with_source|bulk_query_with_source|get_metadata|exists|get_document_with_metadata)\(", name="engine data call")
SANITIZE = call(r"= KyroDBServiceImpl::sanitize_public_metadata\(", name="sanitize_public_metadata")
STREAM_MSG = call(r"async fn body of Streaming<.*>::message\(\)\} as .*Future>::poll\(", name="stream.message().await (next item)")
BATCH_PUSH = call(r"= Vec::<\(u64, Vec<f32>, HashMap<String, String>\)>::push\(", name="documents.push(item)")
MAP_OK = Arm(r"^discr\(call KyroDBServiceImpl::map_doc_id\)$|^discr\(try\(call KyroDBServiceImpl::map_doc_id\)\)$", {"0"}, name="map_doc_id -> Ok")


def rpc_guard(name, id_mapped=True, per_item_rate=False):
    f = RPC(name)
    cs = [precedes(f, TENANT_CTX, ENGINE), precedes(f, RATE, ENGINE)]
    if id_mapped:
        cs.append(precedes(f, MAP_ID, ENGINE))          # no engine call with an id that did not go through the range-checked mapping
        cs.append(only_via(f, ENGINE, MAP_OK))          # ... and the mapping succeeded
    return allof(*cs)


def reserved_keys_overwritten(name, engine_re):
    """write RPCs: the client's reserved keys are removed before the server's values are inserted and before the engine sees the metadata"""
    f = RPC(name)
    REM = call(r"= HashMap::<String, String>::remove::<str>\(", name='metadata.remove("__tenant_idx__" / "__namespace__")')
    ENG = call(engine_re, name="engine write")
    return allof(precedes(f, REM, ENG), follows(f, MAP_ID, REM, exit="any", exit_ev=ENG))


def _rem_key(key):
    import vlib.mir as _M
    from vlib.mirflow import origin as _o

    def also(fn, b, _txt):
        a = _M._split_top(b.args)
        return len(a) > 1 and ('"%s"' % key) in _o(fn, a[1])
    return Ev(r"= HashMap::<String, String>::remove::<str>\(", kind="call", also=also, name='metadata.remove("%s")' % key)


def each_reserved_key_removed(name, sink, sink_is_exit=False):
    """Every one of the three reserved keys is removed from the client's metadata before `sink` (the engine write, or the
    push into the engine batch).  Which key a `remove` call targets is read from the provenance of its argument."""
    f = RPC(name)
    cs = []
    for k in ("__tenant_id__", "__tenant_idx__", "__namespace__"):
        ev = _rem_key(k)

        def one(F, ev=ev, k=k):
            fc = FnCheck(F, f, containing=sink)
            if fc.fn is None:
                return fc.missing()
            if fc.count(ev) == 0 and fc.count(sink) > 0:
                r = fc.reachable(sink)
                if r.verdict == "holds":
                    return Result("violated", "%s never removes the client-supplied reserved key %s before %s: a client can forge it on documents that do not already carry a stored value" % (name, k, sink.name),
                                  queries=r.queries, seconds=r.seconds, sample={"fn": fc.name, "kind": "PRECEDES", "A": ev.name, "B": sink.name})
                return r
            return fc.precedes(ev, sink)
        cs.append(one)
    return allof(*cs)



def tenant_index_unique(F):
    """TenantIdMapper: two tenants never share a tenant_index (the index is the upper half of every global document id and the
    value of `__tenant_idx__`).  load_or_create numbers the tenants by position in a list: the list must be sorted and
    de-duplicated (AuthManager lists one entry per API key) before it is enumerated, otherwise the map ends with fewer entries
    than the highest index + 1 and ensure_tenant — which hands out `map.len()` as the next index — collides with an index in
    use.  ensure_tenant: the new index is map.len() taken under the map's write lock, after the re-check under that lock."""
    import vlib.mir as _M
    from vlib.mirflow import origin as _o
    f = "TenantIdMapper::load_or_create"
    fc = FnCheck(F, f)
    if fc.fn is None:
        return [fc.missing()]
    ENUM = call(r"as Iterator>::enumerate\(", name="tenant_ids.into_iter().enumerate()")
    INS = call(r"= HashMap::<(std::string::)?String, u32>::insert\(", name="map.insert(tenant_id, idx)")
    DEDUP = call(r"= Vec::<(std::string::)?String>::dedup\(|= Vec::<&str>::dedup\(", name="tenant_ids.dedup()")
    SORT = call(r"::sort(_unstable)?\(", name="tenant_ids.sort()")
    out = []
    if fc.count(ENUM) == 0 or fc.count(INS) == 0:
        return [Result("inconclusive", "load_or_create does not number the tenants by enumerate() + insert any more")]
    if fc.count(DEDUP) == 0:
        r = fc.reachable(INS)
        # a set-based collection (BTreeSet / HashSet) would also be unique
        setlike = any(re.search(r"(BTreeSet|HashSet)<", (b.term or "")) for b in fc.fn.blocks.values() if not b.cleanup and b.kind == "call")
        if setlike:
            return [Result("inconclusive", "tenants are collected through a set; uniqueness not decided structurally")]
        return [Result("violated" if r.verdict == "holds" else "inconclusive", "load_or_create enumerates the tenant list without de-duplicating it: a tenant with two API keys takes two positions, the map holds fewer entries than "
                       "the highest index + 1, and the next ensure_tenant (index = map.len()) re-uses an index already assigned — two tenants share one document-id space", queries=r.queries, seconds=r.seconds,
                       sample={"fn": fc.name, "kind": "PRECEDES", "missing": "Vec::dedup before enumerate"})]
    out += [fc.precedes(SORT, DEDUP), fc.precedes(DEDUP, ENUM)]
    g = FnCheck(F, "TenantIdMapper::ensure_tenant")
    if g.fn is None:
        return out + [g.missing()]
    LEN = call(r"= HashMap::<(std::string::)?String, u32>::len\(", name="map.len()")
    WR = call(r"RwLock.*::write\(", name="self.map.write()")
    INS2 = call(r"= HashMap::<(std::string::)?String, u32>::insert\(", name="map.insert(tenant_id, next_idx)")
    out += [g.precedes(WR, LEN), g.precedes(LEN, INS2)]
    return out

MOS = [
    MO("O10.6/tenant_index_unique", "TenantIdMapper: tenants are numbered from a sorted, de-duplicated list (load_or_create) and later by map.len() under the write lock (ensure_tenant), so no two tenants share a tenant_index / document-id space",
       lambda F: tenant_index_unique(F), functions=[("bin/kyrodb_server.rs", "load_or_create"), ("bin/kyrodb_server.rs", "ensure_tenant")], target="kyrodb_server"),
    MO("O10.4/guards", "every data RPC resolves the tenant, enforces the rate limit and maps the document id through the range-checked map_doc_id (successfully) before any engine call",
       allof(*[rpc_guard(n) for n in ("insert", "bulk_insert", "query", "delete", "update_metadata")],
             # bulk_query maps a list of ids in a loop before one engine call (an empty list reaches the engine unmapped, harmlessly)
             precedes(RPC("bulk_query"), TENANT_CTX, ENGINE), precedes(RPC("bulk_query"), RATE, ENGINE), lambda F: FnCheck(F, RPC("bulk_query")).reachable(MAP_ID),
             never(RPC("bulk_query"), ENGINE, frm=Arm(r"^discr\(try\(call KyroDBServiceImpl::map_doc_id\)\)$|^discr\(call KyroDBServiceImpl::map_doc_id\)$", {"1"}, name="map_doc_id -> Err")),
             # bulk_load_hnsw batches items: the engine is also called after the stream ended (possibly with an empty batch),
             # so the guard is stated per item: from receiving a message, the batch push is reached only through map_doc_id -> Ok
             precedes(RPC("bulk_load_hnsw"), TENANT_CTX, ENGINE), precedes(RPC("bulk_load_hnsw"), RATE, ENGINE),
             lambda F: _per_item_mapped(F),
             precedes(RPC("batch_delete"), TENANT_CTX, ENGINE), precedes(RPC("batch_delete"), RATE, ENGINE)),
       functions=[("bin/kyrodb_server.rs", n) for n in ("insert", "bulk_insert", "bulk_load_hnsw", "query", "bulk_query", "delete", "update_metadata", "batch_delete")], target="kyrodb_server"),
    MO("O10.4/reserved_keys", "insert / bulk_insert / bulk_load_hnsw / update_metadata: each of the three client-supplied reserved keys is removed before the server-owned values are written and before the engine sees the metadata; responses are sanitised",
       allof(reserved_keys_overwritten("insert", r"= TieredEngine::insert\("), reserved_keys_overwritten("bulk_insert", r"= TieredEngine::insert\("),
             follows(RPC("bulk_load_hnsw"), MAP_ID, call(r"= HashMap::<String, String>::remove::<str>\(", name="metadata.remove(reserved)"), exit="any", exit_ev=BATCH_PUSH),
             lambda F: FnCheck(F, RPC("query")).reachable(SANITIZE), lambda F: FnCheck(F, RPC("bulk_query")).reachable(SANITIZE),
             lambda F: _sanitize_removes_all(F),
             each_reserved_key_removed("insert", call(r"= TieredEngine::insert\(", name="engine.insert")),
             each_reserved_key_removed("bulk_insert", call(r"= TieredEngine::insert\(", name="engine.insert")),
             each_reserved_key_removed("bulk_load_hnsw", BATCH_PUSH),
             each_reserved_key_removed("update_metadata", call(r"= TieredEngine::update_metadata\(", name="engine.update_metadata"))),
       functions=[("bin/kyrodb_server.rs", n) for n in ("insert", "bulk_insert", "bulk_load_hnsw", "update_metadata", "sanitize_public_metadata")], target="kyrodb_server"),
    MO("O10.4/ownership", "query / delete / update_metadata: the stored __tenant_idx__ is read (engine.get_metadata) before the document is served, deleted or updated",
       allof(precedes(RPC("query"), call(r"= TieredEngine::get_metadata\(", name="engine.get_metadata (ownership check)"), call(r"= TieredEngine::query_with_source\(", name="engine.query_with_source")),
             precedes(RPC("delete"), call(r"= TieredEngine::get_metadata\(", name="engine.get_metadata (ownership check)"), call(r"= TieredEngine::delete\(", name="engine.delete")),
             precedes(RPC("update_metadata"), call(r"= TieredEngine::get_metadata\(", name="engine.get_metadata (ownership check)"), call(r"= TieredEngine::update_metadata\(", name="engine.update_metadata"))),
       functions=[("bin/kyrodb_server.rs", n) for n in ("query", "delete", "update_metadata")], target="kyrodb_server"),
    MO("O10.4/search_metadata_gate", "build_search_response: with a tenant, needs_metadata (the gate of the per-candidate ownership / namespace re-check) is true before the first candidate is looked at",
       lambda F: search_metadata_gate(F), functions=[("bin/kyrodb_server.rs", "build_search_response")], target="kyrodb_server"),
    MO("O10.4/filter_delete_scoped", "BatchDelete by filter: with a tenant a scoping clause is pushed first and the clause vector is never replaced or emptied before it reaches the engine",
       lambda F: filter_delete_scoped(F), functions=[("bin/kyrodb_server.rs", "batch_delete")], target="kyrodb_server"),
    MO("O10.5/cache_scope", "query_cache_scope: tenant index (when there is a tenant), namespace and filter (when present) are hashed into the scope on every path to finish()",
       lambda F: cache_scope(F), functions=[("bin/kyrodb_server.rs", "query_cache_scope")], target="kyrodb_server"),
    MO("O10.4/ownership_test", "query / delete / update_metadata / bulk_query / build_search_response (search results): the ownership test compares the stored __tenant_idx__ with the caller's tenant index, the namespace test the stored namespace with the requested one, "
       "and the engine operation is unreachable from a mismatch of either",
       lambda F: allof(ownership_operands("query", r"= TieredEngine::query_with_source\("), ownership_operands("delete", r"= TieredEngine::delete\("),
                       ownership_operands("update_metadata", r"= TieredEngine::update_metadata\("),
                       ownership_operands("build_search_response", r"= KyroDBServiceImpl::sanitize_public_metadata\(", fname="KyroDBServiceImpl::build_search_response",
                                          loop_head=r"= <IntoIter<(kyrodb_engine::)?SearchResult> as Iterator>::next\("),
                       ownership_operands("bulk_query", r"= KyroDBServiceImpl::sanitize_public_metadata\(", loop_head=r"= <std::iter::Enumerate<IntoIter<Option<\(Vec<f32>, HashMap<String, String>, PointQueryTier\)>>> as Iterator>::next\(", clears=True))(F),
       functions=[("bin/kyrodb_server.rs", n) for n in ("query", "delete", "update_metadata", "bulk_query", "build_search_response")], target="kyrodb_server"),
]


def ownership_operands(name, engine_re, fname=None, loop_head=None, clears=False):
    """query / delete / update_metadata: the ownership test compares the STORED `__tenant_idx__` value with the CALLER's
    tenant index (as a string), the namespace test compares the stored `__namespace__` (default "") with the request's
    namespace, and on a mismatch of either the engine operation is never reached."""
    import vlib.mir as _M
    from vlib.mirflow import origin as _o
    f = fname or RPC(name)
    ENG = call(engine_re, name="engine operation on the document" if fname is None else "document metadata handed to the client (sanitize_public_metadata)")

    def run(F):
        fc = FnCheck(F, f, containing=ENG)
        if fc.fn is None:
            return [fc.missing()]
        fn = fc.fn
        ti = field_index("bin/kyrodb_server.rs", "TenantContext", "tenant_index")
        out = []
        OWN = Arm(r"^call <Option<&String> as PartialEq>::ne$", {"otherwise"}, name="stored __tenant_idx__ != caller's tenant index")
        NSP = Arm(r"^call <&str as PartialEq<String>>::ne\(", {"otherwise"}, name="stored namespace != requested namespace")
        for arm in (OWN, NSP):
            if not arm.switches(fn):
                r = fc.reachable(ENG)
                out.append(Result("violated" if r.verdict == "holds" else "inconclusive", "%s reaches %s without the test `%s`: a document of another tenant / namespace is served or modified" % (name, ENG.name, arm.name),
                                  queries=r.queries, seconds=r.seconds, sample={"fn": fc.name, "kind": "NEVER", "missing_test": arm.name}))
            elif clears:
                # bulk_query keeps a `found` flag (data, not control): what is decided is that a mismatch wipes the item's
                # metadata and embedding before anything else happens to it
                out.append(fc.follows(arm, call(r"= HashMap::<String, String>::clear\(", name="metadata.clear()"), exit="any", exit_ev=call(loop_head, name="next item of the loop")))
                out.append(fc.follows(arm, call(r"= Vec::<f32>::clear\(", name="embedding.clear()"), exit="any", exit_ev=call(loop_head, name="next item of the loop")))
                out.append(fc.follows(arm, call(r"= HashMap::<String, String>::clear\(", name="metadata.clear()"), exit="any", exit_ev=ENG))
            elif loop_head is not None:
                # per item of a loop: from a mismatch, the metadata of THIS item is never handed out (the next item is fetched first)
                out.append(fc.follows(arm, call(loop_head, name="next item of the loop"), exit="any", exit_ev=ENG))
            else:
                out.append(fc.never(ENG, frm=arm))
        # operands of the ownership test
        gets = {}
        for b in fn.blocks.values():
            if b.cleanup or b.kind != "call":
                continue
            from vlib.mirflow import short_ty as _st
            if re.search(r"HashMap::<String, String>::get::<str>$", _st(b.callee or "")):
                a = _M._split_top(b.args)
                gets[b.dest] = _o(fn, a[1]) if len(a) > 1 else "?"
        for b in fn.blocks.values():
            if b.cleanup or b.kind != "call" or not re.search(r"<Option<&String> as PartialEq>::ne$", short(b.callee)):
                continue
            a = _M._split_top(b.args)
            # left: &(_x = HashMap::get(meta, KEY))
            m0 = re.match(r"^(?:move |copy )?(_\d+)$", a[0].strip())
            key = "?"
            if m0:
                ds = fn.build_defs().get(m0.group(1)) or []
                for (_b, _i, rhs) in ds:
                    mm = re.match(r"^&(_\d+)$", rhs.strip())
                    if mm and mm.group(1) in gets:
                        key = gets[mm.group(1)]
            right = _o(fn, a[1])
            rr = right
            for _ in range(4):
                mm = re.search(r"Some\((?:copy|move) (_\d+)\)", rr)
                if not mm:
                    break
                rr = _o(fn, mm.group(1))
            okk = key == 'const "__tenant_idx__"'
            okr = bool(re.search(r"call <u32 as ToString>::to_string", rr)) and ti is not None
            if okr:
                # the to_string argument is the caller's tenant_index field
                for tb in fn.blocks.values():
                    if not tb.cleanup and tb.kind == "call" and re.search(r"<u32 as ToString>::to_string$", short(tb.callee)):
                        okr = okr and bool(re.search(r"TenantContext\)\}\)\.%d: u32\)$" % ti, _o(fn, tb.args)))
            smp = {"fn": fc.name, "kind": "PROVENANCE", "stored_key": key, "compared_with": rr[:120]}
            if okk and okr:
                out.append(Result("holds", "ownership test: metadata[\"__tenant_idx__\"] vs tenant.tenant_index.to_string()", sample=smp))
            else:
                out.append(Result("violated", "%s decides ownership on metadata[%s] vs `%s`, expected metadata[\"__tenant_idx__\"] vs the caller's tenant_index" % (name, key, rr[:100]), sample=smp))
        return out
    return run


def short(t):
    from vlib.mirflow import short_ty
    return re.sub(r"::<[^>]*>$", "", short_ty(t or ""))


def search_metadata_gate(F):
    """build_search_response re-checks ownership / namespace of every candidate only `if needs_metadata`: with a tenant that flag
    must be true — the `tenant.is_some()` arm sets it to the constant true before the candidate loop starts."""
    f = "KyroDBServiceImpl::build_search_response"
    fc = FnCheck(F, f)
    if fc.fn is None:
        return [fc.missing()]
    nm = (fc.fn.debug.get("needs_metadata") or "").strip()
    if not re.match(r"^_\d+$", nm):
        return [Result("inconclusive", "needs_metadata not found in the debug info of build_search_response")]
    SET = stmt(r"^%s = const true;$" % nm, name="needs_metadata = true")
    LOOP = call(r"= <IntoIter<(kyrodb_engine::)?SearchResult> as Iterator>::next\(", name="first candidate fetched")
    T = Arm(r"^call Option::<&TenantContext>::is_some$", {"otherwise"}, name="tenant.is_some() [first test: the needs_metadata computation]", nth=0)
    if not T.switches(fc.fn):
        r = fc.reachable(LOOP)
        return [Result("violated" if r.verdict == "holds" else "inconclusive", "build_search_response no longer derives needs_metadata from tenant.is_some(): with a tenant and no namespace / filter the ownership "
                       "re-check of search candidates is skipped", queries=r.queries, seconds=r.seconds, sample={"fn": fc.name, "kind": "FOLLOWS", "A": T.name, "B": SET.name})]
    return [fc.follows(T, SET, exit="any", exit_ev=LOOP)]


def filter_delete_scoped(F):
    """BatchDelete by filter: the engine receives AND(tenant clause, [namespace clause], caller's filter).  Decided: with a tenant, a
    clause is pushed into `filters` before the caller's filter, the vector is never re-assigned (or cleared / truncated) between that push
    and the engine call, and the engine call is reached only after it.  (There is no second ownership check on this path.)"""
    f = RPC("batch_delete")
    ENG = call(r"= TieredEngine::batch_delete_by_metadata_filter\(", name="engine.batch_delete_by_metadata_filter(combined)")
    fc = FnCheck(F, f, containing=ENG)
    if fc.fn is None:
        return [fc.missing()]
    fn = fc.fn
    fl = (fn.debug.get("filters") or "").strip()
    if not re.match(r"^_\d+$", fl):
        return [Result("inconclusive", "local `filters` not found in the debug info of batch_delete")]
    PUSH = call(r"= Vec::<(kyrodb_engine::proto::)?MetadataFilter>::push\(", name="filters.push(clause)")
    T_SOME = Arm(r"^discr\(\(\*\{&\(\(_\d+ as Continue\)\.0: Option<TenantContext>\)\}\)\)$", {"1"}, name="tenant is Some (filter arm)", nth=-1)
    sw = [b for b in Arm(r"^discr\(\(\*\{&\(\(_\d+ as Continue\)\.0: Option<TenantContext>\)\}\)\)$", {"1"}).switches(fn)]
    # the tenant test of the filter arm is the last one before the engine call in block order
    cand = [b for b in sw if b.idx < min(i for i, b2 in fn.blocks.items() if not b2.cleanup and ENG.match_block(fn, b2))]
    if not cand:
        return [Result("inconclusive", "tenant test of the filter arm not found")]
    tsw = cand[-1]
    T_ARM = Arm(r"^discr\(\(\*\{&\(\(_\d+ as Continue\)\.0: Option<TenantContext>\)\}\)\)$", {"1"}, name="tenant is Some (filter arm)", nth=sw.index(tsw))
    REASSIGN = Ev(r".", kind="any", also=lambda f_, b, t: (t.startswith(fl + " = ") and b.kind != "call") or (b.kind == "call" and t == "%s = %s(%s)" % (b.dest, b.callee, b.args) and b.dest == fl)
                  or (b.kind == "call" and re.search(r"Vec::<(kyrodb_engine::proto::)?MetadataFilter>::(clear|truncate|drain|retain|split_off|swap_remove|remove)\b", b.callee or "") is not None),
                  name="`filters` re-assigned / emptied")
    out = [fc.follows(T_ARM, PUSH, exit="any", exit_ev=ENG)]
    if fc.count(REASSIGN) > 1:  # the initial Vec::new() is one assignment
        out.append(fc.never(REASSIGN, frm=PUSH))
    else:
        out.append(Result("holds", "`filters` is assigned once (Vec::new) and only pushed to", sample={"fn": fc.name, "kind": "NEVER", "B": REASSIGN.name}))
    return out


def cache_scope(F):
    """query_cache_scope: the scope under which a search result list is cached hashes (a) the caller's tenant index when there is
    a tenant (a fixed sentinel otherwise), (b) the request's namespace, (c) the request's filter when present — each on every
    path to `finish()`.  A scope that leaves one of them out lets a cached list answer another tenant's / namespace's / filter's
    query.  (Collision-freeness of the 64-bit hash itself is not claimed.)"""
    import vlib.mir as _M
    from vlib.mirflow import origin as _o
    f = "KyroDBServiceImpl::query_cache_scope"
    fc = FnCheck(F, f)
    if fc.fn is None:
        return [fc.missing()]
    fn = fc.fn
    ti = field_index("bin/kyrodb_server.rs", "TenantContext", "tenant_index")
    FIN = call(r"= <DefaultHasher as Hasher>::finish\(", name="hasher.finish()")

    def hashed(rx_callee, rx_arg, name):
        def also(f_, b, _t):
            a = _M._split_top(b.args)
            return bool(a) and re.search(rx_arg, _o(f_, a[0])) is not None
        return Ev(rx_callee, kind="call", also=also, name=name)
    TEN = hashed(r"= <u32 as Hash>::hash::<", r"TenantContext\)\}\)\.%d: u32\)$" % (ti if ti is not None else 1), "tenant.tenant_index.hash()")
    NSP = hashed(r"= <String as Hash>::hash::<", r"SearchRequest\)\}\)\.\d+: String\)$", "req.namespace.hash()")
    FLT = Ev(r"= <(Vec<u8>|String) as Hash>::hash::<", kind="call", also=lambda f_, b, _t: not re.search(r"SearchRequest\)\}\)\.\d+: String\)$", _o(f_, (_M._split_top(b.args) or [""])[0])), name="encoded filter .hash()")
    out = []
    T_SOME = Arm(r"^discr\(arg\(_2: Option<&TenantContext>\)\)$", {"1"}, name="tenant is Some")
    F_SOME = Arm(r"^discr\(.*Option<(kyrodb_engine::proto::)?MetadataFilter>\)\}?\)\)$", {"1"}, name="req.filter is Some")
    for ev, arm, what in ((TEN, T_SOME, "the tenant index"), (NSP, None, "the namespace"), (FLT, F_SOME, "the filter")):
        if fc.count(ev) == 0:
            r = fc.reachable(FIN)
            out.append(Result("violated" if r.verdict == "holds" else "inconclusive", "query_cache_scope no longer hashes %s: cached search results are shared across it" % what, queries=r.queries, seconds=r.seconds,
                              sample={"fn": fc.name, "kind": "PRECEDES", "A": ev.name, "B": FIN.name}))
        elif arm is None:
            out.append(fc.precedes(ev, FIN))
        else:
            out.append(fc.follows(arm, ev, exit="any", exit_ev=FIN))
    return out


def _per_item_mapped(F):
    fc = FnCheck(F, RPC("bulk_load_hnsw"))
    if fc.fn is None:
        return fc.missing()
    if fc.count(STREAM_MSG) == 0 or fc.count(BATCH_PUSH) == 0:
        return Result("inconclusive", "stream receive / batch push not found in bulk_load_hnsw")
    if fc.count(MAP_ID) == 0:
        r = fc.reachable(BATCH_PUSH)
        return Result("violated" if r.verdict == "holds" else "inconclusive",
                      "bulk_load_hnsw pushes stream items into the engine batch without calling map_doc_id: local ids >= 2^32 spill into the tenant half of the global id",
                      queries=r.queries, seconds=r.seconds, sample={"fn": fc.name, "kind": "FOLLOWS", "A": STREAM_MSG.name, "B": MAP_ID.name, "exit": BATCH_PUSH.name})
    return [fc.follows(STREAM_MSG, MAP_ID, exit="any", exit_ev=BATCH_PUSH), fc.never(BATCH_PUSH, frm=STREAM_MSG, cut=[MAP_OK])]


def _sanitize_removes_all(F):
    fc = FnCheck(F, "KyroDBServiceImpl::sanitize_public_metadata")
    if fc.fn is None:
        return fc.missing()
    n = fc.count(call(r"= HashMap::<String, String>::remove::<str>\(", name="remove"))
    if n >= 3:
        return Result("holds", "%d reserved keys removed" % n, sample={"fn": fc.name, "kind": "COUNT", "removes": n})
    return Result("violated", "sanitize_public_metadata removes only %d of the 3 reserved keys" % n)


def run(tier, seed, notes):
    return run_mir_obligations("C10", tier, MOS, notes) + run_kani_group("C10", tier, "kyrodb_server", {"bin/kyrodb_server.rs": "bin_kyrodb_server_proofs.rs"}, HARNESSES, jobs=4, notes=notes)
