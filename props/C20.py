"""C20 — caches and the recent-write tier stay within their configured bounds (engine M skeletons)."""
from vlib.mo import *
from vlib.runner import run_mir_obligations

ENGINES = "M"
LEVEL = "other"
EXPLANATION = ("mirflow/z3: evict-before-insert skeleton of the document cache, the query-result cache and the semantic embedding cache (capacity test precedes the insert, eviction removes from both "
               "structures, one critical section), and the hard-limit drain in TieredEngine::insert.  The arithmetic of the bound (pop_lru removes one element, len counts what insert adds) rests on "
               "std HashMap / indexmap and is outside the claim.")
TRUSTED_BASE = ["rustc MIR", "z3", "std::collections::HashMap, indexmap, LruIndex contracts"]
NOT_COVERED = ["histories", "re-insertion after a failed drain exceeding the limit", "LruIndex/VectorCache value-level Kani harnesses (std HashMap is beyond CBMC here: probe > 7 min)", "capacity 0 configurations"]

V = "vector_cache::VectorCache::"
Q = "query_hash_cache::QueryHashCache::"
T = "tiered_engine::TieredEngine::"


def evict_skeleton(fn, state_ty, key_ty, val_ty, cap_field_owner):
    STATE_WRITE = call(r"= RwLock::<(\w+::)?%s>::write\(" % state_ty, name="state.write()")
    INSERT = call(r"= HashMap::<(\w+::)?%s, (\w+::)?%s>::insert\(" % (key_ty, val_ty), name="state.cache.insert (new entry)")
    REMOVE = call(r"= HashMap::<(\w+::)?%s, (\w+::)?%s>::remove::<" % (key_ty, val_ty), name="state.cache.remove(evicted)")
    POP = call(r"= LruIndex::<(\w+::)?%s>::pop_lru\(" % key_ty, name="lru.pop_lru")
    INS_NEW = call(r"= LruIndex::<(\w+::)?%s>::insert_new\(" % key_ty, name="lru.insert_new")
    LEN = call(r"= HashMap::<(\w+::)?%s, (\w+::)?%s>::len\(" % (key_ty, val_ty), name="state.cache.len()")
    AT_CAP = Arm(r"^Ge\(call HashMap::<(\w+::)?%s, (\w+::)?%s>::len, \(\(\*\{arg\(_1: &%s\)\}\)\.\d+: usize\)\)$" % (key_ty, val_ty, cap_field_owner), {"otherwise"}, name="len >= capacity")
    return allof(
        precedes(fn, LEN, INS_NEW),
        follows(fn, AT_CAP, POP, exit="any", exit_ev=INS_NEW),
        follows(fn, Arm(r"^discr\(call LruIndex::<(\w+::)?%s>::pop_lru\)$" % key_ty, {"1"}, name="pop_lru -> Some"), REMOVE, exit="any", exit_ev=INS_NEW),
        only_via(fn, POP, AT_CAP),
        held(fn, STATE_WRITE, POP), held(fn, STATE_WRITE, REMOVE), held(fn, STATE_WRITE, INS_NEW), held(fn, STATE_WRITE, LEN),
        follows(fn, LEN, INS_NEW, exit="any", exit_ev=anyev(r"^_0 = ", name="return")),
    )


MOS = [
    MO("O20.5/vector_cache", "VectorCache::insert: capacity test before the insert; at capacity pop_lru then cache.remove before the new entry; map and LRU updated together; one critical section",
       evict_skeleton(V + "insert", "CacheState", "u64", "CachedVector", "VectorCache"), functions=[("vector_cache.rs", "insert")]),
    MO("O20.5/query_cache", "QueryHashCache::insert_with_k_scoped_internal: same evict-before-insert skeleton",
       evict_skeleton(Q + "insert_with_k_scoped_internal", "QueryCacheState", "QueryCacheKey", "CachedQueryResult", "QueryHashCache"), functions=[("query_hash_cache.rs", "insert_with_k_scoped_internal")]),
    MO("O20.5/vector_cache_new_insert", "VectorCache::insert: the map insert of a new key happens only after the capacity test",
       allof(precedes(V + "insert", call(r"= HashMap::<u64, (\w+::)?CachedVector>::len\(", name="state.cache.len()"), call(r"= HashMap::<u64, (\w+::)?CachedVector>::insert\(", name="state.cache.insert")),
             precedes(Q + "insert_with_k_scoped_internal", call(r"= HashMap::<(\w+::)?QueryCacheKey, (\w+::)?CachedQueryResult>::len\(", name="state.cache.len()"), call(r"= LruIndex::<(\w+::)?QueryCacheKey>::insert_new\(", name="lru.insert_new"))),
       functions=[("vector_cache.rs", "insert")]),
    MO("O20.5/semantic", "SemanticAdapter::cache_embedding: len >= max_cached_embeddings test precedes the insert and evicts on that arm, under the cache_state write lock",
       allof(precedes("semantic_adapter::SemanticAdapter::cache_embedding", call(r"= IndexMap::<u64, Vec<f32>>::len\(", name="entries.len()"), call(r"= IndexMap::<u64, Vec<f32>>::insert\(", name="entries.insert")),
             follows("semantic_adapter::SemanticAdapter::cache_embedding", Arm(r"^Ge\(call IndexMap::<u64, Vec<f32>>::len, ", {"otherwise"}, name="len >= max_cached_embeddings"),
                     call(r"= IndexMap::<u64, Vec<f32>>::shift_remove_index\(", name="entries.shift_remove_index(0)"), exit="any", exit_ev=call(r"= IndexMap::<u64, Vec<f32>>::insert\(", name="entries.insert")),
             held("semantic_adapter::SemanticAdapter::cache_embedding", call(r"= RwLock::<(\w+::)?SemanticCacheState>::write\(|= RwLock::<.*>::write\(", name="cache_state.write()"), call(r"= IndexMap::<u64, Vec<f32>>::insert\(", name="entries.insert"))),
       functions=[("semantic_adapter.rs", "cache_embedding")]),
    MO("O20.4/hard_limit", "TieredEngine::insert: emergency drain only (and always) on the len >= hard_limit arm, before the hot insert; a failed drain rejects the insert; the drain precedes reconciliation",
       allof(only_via(T + "insert", call(r"= TieredEngine::emergency_flush_hot_tier\(", name="emergency_flush_hot_tier"), Arm(r"^Ge\(call HotTier::len, ", {"otherwise"}, name="hot_tier.len() >= hard_limit")),
             follows(T + "insert", Arm(r"^Ge\(call HotTier::len, ", {"otherwise"}, name="hot_tier.len() >= hard_limit"), call(r"= TieredEngine::emergency_flush_hot_tier\(", name="emergency_flush_hot_tier"),
                     exit="any", exit_ev=call(r"= HotTier::insert_with_coherence\(", name="hot_tier.insert_with_coherence")),
             never(T + "insert", call(r"= HotTier::insert_with_coherence\(", name="hot_tier.insert_with_coherence"), frm=Arm(r"^discr\(call TieredEngine::emergency_flush_hot_tier\)$", {"1"}, name="emergency flush -> Err")),
             precedes(T + "insert", call(r"= HotTier::len\(", name="hot_tier.len()"), call(r"= HotTier::insert_with_coherence\(", name="hot_tier.insert_with_coherence")),
             precedes(T + "emergency_flush_hot_tier", call(r"= HotTier::drain_for_flush\(", name="hot_tier.drain_for_flush"), call(r"= TieredEngine::reconcile_drained_hot_tier_documents\(", name="reconcile_drained_hot_tier_documents"))),
       functions=[("tiered_engine.rs", "insert"), ("tiered_engine.rs", "emergency_flush_hot_tier")]),
]


def run(tier, seed, notes):
    return run_mir_obligations("C20", tier, MOS, notes)
