"""C20 — caches and the recent-write tier stay within their configured bounds (engine M skeletons; Kani bounded
histories of the shared recency index over a finite-map model of HashMap)."""
import re
from vlib.mo import *
from vlib.runner import KH, run_kani_group, run_mir_obligations

ENGINES = "KM"
LEVEL = "other"
EXPLANATION = ("Kani/CBMC: every history of up to 7 operations (insert_new/touch/remove/pop_lru, symbolic kind and key per step, 4 keys) on the real LruIndex — its std HashMap replaced by a finite-map "
               "model under cfg(kani) — agrees step by step with a reference list (length, order in both directions, return values).  mirflow/z3: evict-before-insert skeleton of the document cache, the query-result cache and the semantic embedding cache (capacity test precedes the insert, eviction removes from both "
               "structures, one critical section), and the hard-limit drain in TieredEngine::insert.  The arithmetic of the bound (pop_lru removes one element, len counts what insert adds) rests on "
               "std HashMap / indexmap and is outside the claim.")
TRUSTED_BASE = ["rustc MIR", "z3", "Kani/CBMC", "std::collections::HashMap behaves as a finite map (model: harness/support/verif_map.rs)", "indexmap contract"]
NOT_COVERED = ["histories", "re-insertion after a failed drain exceeding the limit", "LruIndex histories longer than 7 operations or over more than 4 keys; for_each_recent", "VectorCache/QueryHashCache value-level histories on the real std HashMap (beyond CBMC: a 4-operation history did not finish in 20 min)", "capacity 0 configurations"]

V = "vector_cache::VectorCache::"
Q = "query_hash_cache::QueryHashCache::"
T = "tiered_engine::TieredEngine::"


def evict_skeleton(fn, state_ty, key_ty, val_ty, cap_field_owner):
    STATE_WRITE = call(r"= RwLock::<(\w+::)?%s>::write\(" % state_ty, name="state.write()")
    INSERT = call(r"= HashMap::<(\w+::)?%s, (\w+::)?%s>::insert\(" % (key_ty, val_ty), name="state.cache.insert (new entry)")
    REMOVE = call(r"= HashMap::<(\w+::)?%s, (\w+::)?%s>::remove::<" % (key_ty, val_ty), name="state.cache.remove(evicted)")
    POP = call(r"= LruIndex::<(\w+::)?%s>::pop_lru\(" % key_ty, name="lru.pop_lru")
    INS_NEW = call(r"= LruIndex::<(\w+::)?%s>::insert_new\(" % key_ty, name="lru.insert_new")
    LEN = call(r"= HashMap::<(\w+::)?%s, (\w+::)?%s>::len\(" % (key_ty, val_ty), name="state.cache.len()")
    AT_CAP = Arm(r"^(Ge|Gt|Le|Lt|Eq|Ne)\(call HashMap::<(\w+::)?%s, (\w+::)?%s>::len, \(\(\*\{arg\(_1: &%s\)\}\)\.\d+: usize\)\)$" % (key_ty, val_ty, cap_field_owner), {"otherwise"}, name="len >= capacity")
    return allof(
        precedes(fn, LEN, INS_NEW),
        follows(fn, AT_CAP, POP, exit="any", exit_ev=INS_NEW),
        follows(fn, Arm(r"^discr\(call LruIndex::<(\w+::)?%s>::pop_lru\)$" % key_ty, {"1"}, name="pop_lru -> Some"), REMOVE, exit="any", exit_ev=INS_NEW),
        only_via(fn, POP, AT_CAP),
        held(fn, STATE_WRITE, POP), held(fn, STATE_WRITE, REMOVE), held(fn, STATE_WRITE, INS_NEW), held(fn, STATE_WRITE, LEN),
        follows(fn, LEN, INS_NEW, exit="any", exit_ev=anyev(r"^_0 = ", name="return")),
    )


MOS = [
    MO("O20.5/vector_cache", "VectorCache::insert: capacity test before the insert; at capacity pop_lru then cache.remove before the new entry; map and LRU updated together; one critical section",
       evict_skeleton(V + "insert", "CacheState", "u64", "CachedVector", "VectorCache"), functions=[("vector_cache.rs", "insert")]),
    MO("O20.5/query_cache", "QueryHashCache::insert_with_k_scoped_internal: same evict-before-insert skeleton",
       evict_skeleton(Q + "insert_with_k_scoped_internal", "QueryCacheState", "QueryCacheKey", "CachedQueryResult", "QueryHashCache"), functions=[("query_hash_cache.rs", "insert_with_k_scoped_internal")]),
    MO("O20.5/vector_cache_new_insert", "VectorCache::insert: the map insert of a new key happens only after the capacity test",
       allof(precedes(V + "insert", call(r"= HashMap::<u64, (\w+::)?CachedVector>::len\(", name="state.cache.len()"), call(r"= HashMap::<u64, (\w+::)?CachedVector>::insert\(", name="state.cache.insert")),
             precedes(Q + "insert_with_k_scoped_internal", call(r"= HashMap::<(\w+::)?QueryCacheKey, (\w+::)?CachedQueryResult>::len\(", name="state.cache.len()"), call(r"= LruIndex::<(\w+::)?QueryCacheKey>::insert_new\(", name="lru.insert_new"))),
       functions=[("vector_cache.rs", "insert")]),
    MO("O20.5/semantic", "SemanticAdapter::cache_embedding: len >= max_cached_embeddings test precedes the insert and evicts on that arm, under the cache_state write lock",
       allof(precedes("semantic_adapter::SemanticAdapter::cache_embedding", call(r"= IndexMap::<u64, Vec<f32>>::len\(", name="entries.len()"), call(r"= IndexMap::<u64, Vec<f32>>::insert\(", name="entries.insert")),
             follows("semantic_adapter::SemanticAdapter::cache_embedding", Arm(r"^(Ge|Gt)\(call IndexMap::<u64, Vec<f32>>::len, ", {"otherwise"}, name="len >= max_cached_embeddings"),
                     call(r"= IndexMap::<u64, Vec<f32>>::shift_remove_index\(", name="entries.shift_remove_index(0)"), exit="any", exit_ev=call(r"= IndexMap::<u64, Vec<f32>>::insert\(", name="entries.insert")),
             held("semantic_adapter::SemanticAdapter::cache_embedding", call(r"= RwLock::<(\w+::)?SemanticCacheState>::write\(|= RwLock::<.*>::write\(", name="cache_state.write()"), call(r"= IndexMap::<u64, Vec<f32>>::insert\(", name="entries.insert"))),
       functions=[("semantic_adapter.rs", "cache_embedding")]),
    MO("O20.4/hard_limit", "TieredEngine::insert: emergency drain only (and always) on the len >= hard_limit arm, before the hot insert; a failed drain rejects the insert; the drain precedes reconciliation",
       allof(only_via(T + "insert", call(r"= TieredEngine::emergency_flush_hot_tier\(", name="emergency_flush_hot_tier"), Arm(r"^(Ge|Gt)\(call HotTier::len, ", {"otherwise"}, name="hot_tier.len() >= hard_limit")),
             follows(T + "insert", Arm(r"^(Ge|Gt)\(call HotTier::len, ", {"otherwise"}, name="hot_tier.len() >= hard_limit"), call(r"= TieredEngine::emergency_flush_hot_tier\(", name="emergency_flush_hot_tier"),
                     exit="any", exit_ev=call(r"= HotTier::insert_with_coherence\(", name="hot_tier.insert_with_coherence")),
             never(T + "insert", call(r"= HotTier::insert_with_coherence\(", name="hot_tier.insert_with_coherence"), frm=Arm(r"^discr\(call TieredEngine::emergency_flush_hot_tier\)$", {"1"}, name="emergency flush -> Err")),
             precedes(T + "insert", call(r"= HotTier::len\(", name="hot_tier.len()"), call(r"= HotTier::insert_with_coherence\(", name="hot_tier.insert_with_coherence")),
             lambda F: emergency_drain_unconditional(F)),
       functions=[("tiered_engine.rs", "insert"), ("tiered_engine.rs", "emergency_flush_hot_tier"), ("tiered_engine.rs", "flush_hot_tier")]),
]


def emergency_drain_unconditional(F):
    """emergency_flush_hot_tier drains unconditionally: hot_tier.drain_for_flush() is called on every path to Ok and precedes
    the reconciliation.  If the function instead delegates to flush_hot_tier(force), the drain there must not depend on
    needs_flush(): with `force == false` it is reached ONLY_VIA the needs_flush() arm, i.e. a hot tier at its hard limit but
    below the soft threshold / age is not drained and the insert that triggered the emergency goes in on top."""
    import vlib.mir as _M
    from vlib.mirflow import origin as _o
    f = T + "emergency_flush_hot_tier"
    fc = FnCheck(F, f)
    if fc.fn is None:
        return [fc.missing()]
    DRAIN = call(r"= HotTier::drain_for_flush\(", name="hot_tier.drain_for_flush")
    REC = call(r"= TieredEngine::reconcile_drained_hot_tier_documents\(", name="reconcile_drained_hot_tier_documents")
    if fc.count(DRAIN) > 0:
        return [fc.precedes(DRAIN, REC), fc.precedes(DRAIN, exit_ok())]
    deleg = [b for b in fc.fn.blocks.values() if not b.cleanup and b.kind == "call" and re.search(r"= TieredEngine::flush_hot_tier\(", b.term or "")]
    if not deleg:
        return [Result("inconclusive", "emergency_flush_hot_tier neither drains the hot tier itself nor delegates to flush_hot_tier")]
    force = _M._split_top(deleg[0].args)[1].strip() if len(_M._split_top(deleg[0].args)) > 1 else "?"
    g = FnCheck(F, T + "flush_hot_tier")
    if g.fn is None:
        return [g.missing()]
    NEEDS = Arm(r"^call HotTier::needs_flush$", {"otherwise"}, name="hot_tier.needs_flush() == true")
    FORCED = Arm(r"^arg\(_2: bool\)$", {"otherwise"}, name="force == true")
    r = g.never(DRAIN, cut=[NEEDS, FORCED])  # drain reachable with force == false and needs_flush() == false?
    if force == "const false" and r.verdict == "holds":
        return [Result("violated", "emergency_flush_hot_tier delegates to flush_hot_tier(false), whose drain is reached only when needs_flush() holds: at the hard limit but below the soft threshold / age nothing is drained "
                       "and the triggering insert is mirrored on top — the recent-write tier exceeds hot_tier_hard_limit (the two limits are independent settings)", queries=r.queries, seconds=r.seconds,
                       sample={"fn": fc.name, "kind": "ONLY_VIA", "delegates_to": "flush_hot_tier(%s)" % force})]
    if force == "const true":
        # with force == true the needs_flush() test is short-circuited: the drain precedes every Ok of flush_hot_tier on that arm
        return [g.precedes(DRAIN, exit_ok(), assume=[FORCED])]
    return [Result("inconclusive", "emergency_flush_hot_tier delegates to flush_hot_tier(%s): not decided" % force)]


def exit_ok():
    return stmt(r"^_0 = Result::<usize, anyhow::Error>::Ok\(", name="return Ok(count)")


def paired_updates(F):
    """The value map and the recency index of a cache describe the same key set only if they are changed together: whenever
    a function of VectorCache / QueryHashCache clears the map it also clears the index, and whenever it removes a key from
    the map (other than the victim pop_lru just removed from the index) it also removes it from the index — on every path
    to the return.  A stale index key is later popped as the eviction victim, nothing real is evicted, and the map grows
    past its capacity (seeds C20-b, C20-c)."""
    out = []
    for owner, key, val in (("vector_cache::VectorCache", "u64", "CachedVector"), ("query_hash_cache::QueryHashCache", "QueryCacheKey", "CachedQueryResult")):
        MAPRX = r"HashMap::<(\w+::)?%s, (\w+::)?%s>::" % (key, val)
        LRURX = r"LruIndex::<(\w+::)?%s>::" % key
        for name, fn in F.items():
            if not name.startswith(owner + "::") or "{closure" in name:
                continue
            fc = FnCheck(F, name)
            for op, lop in (("clear", "clear"), ("remove", "remove")):
                MAP_OP = call(r"= " + MAPRX + op + r"\b", name="cache.%s" % op)
                LRU_OP = call(r"= " + LRURX + lop + r"\(", name="lru.%s" % lop)
                if fc.count(MAP_OP) == 0:
                    continue
                if op == "remove" and fc.count(call(r"= " + LRURX + r"pop_lru\(", name="pop_lru")) > 0:
                    continue  # eviction: the victim came out of the index first (O20.5 skeleton obligations)
                short = "::".join(name.split("::")[-2:])
                if fc.count(LRU_OP) == 0:
                    r = fc.reachable(MAP_OP)
                    out.append(Result("violated" if r.verdict == "holds" else "inconclusive",
                                      "%s calls %s but never %s: keys stay in the recency index after they left the map; once the cache is refilled such a key is popped as the eviction victim, nothing is evicted and "
                                      "the cache exceeds its capacity" % (short, MAP_OP.name, LRU_OP.name), queries=r.queries, seconds=r.seconds,
                                      sample={"fn": name, "kind": "FOLLOWS", "A": MAP_OP.name, "B": LRU_OP.name, "exit": "return"}))
                elif op == "clear":
                    out.append(fc.follows(MAP_OP, LRU_OP, exit="return"))
                else:
                    # remove: the index removal follows on the path where the key was present in the map
                    # both remove functions answer `true` exactly when the key was in the map: every path to that answer passes lru.remove
                    RET_TRUE = stmt(r"^_0 = const true;$", name="return true (key was cached)")
                    out.append(fc.precedes(LRU_OP, RET_TRUE) if fc.count(RET_TRUE) else Result("inconclusive", "%s: no `return true` found" % short))
    if not out:
        out.append(Result("inconclusive", "no clear/remove site found in VectorCache / QueryHashCache"))
    return out


MOS.append(MO("O20.8/paired_updates", "VectorCache / QueryHashCache: map.clear() is followed by lru.clear(), map.remove(key) (key present) by lru.remove(key), on every path to the return",
              paired_updates, functions=[("vector_cache.rs", "clear"), ("vector_cache.rs", "remove"), ("query_hash_cache.rs", "clear"), ("query_hash_cache.rs", "remove_entry")]))


def capacity_decisions(F):
    """The four places where a size is compared with its bound, as DECIDES obligations: whenever the structure is at (or
    above) its bound the evicting / draining call is reached before the new entry goes in — for every value of the size and
    the bound.  (Evicting earlier than necessary would not break the property and is not demanded.)"""
    from vlib import mirdec as MD
    out = []
    ci = field_index("vector_cache.rs", "VectorCache", "capacity")
    qi = field_index("query_hash_cache.rs", "QueryHashCache", "capacity")
    hi = field_index("tiered_engine.rs", "TieredEngineConfig", "hot_tier_hard_limit")
    mi = field_index("semantic_adapter.rs", "SemanticConfig", "max_cached_embeddings")
    if None in (ci, qi, hi, mi):
        return [Result("inconclusive", "capacity fields not found: %r" % ((ci, qi, hi, mi),))]
    # document cache
    atoms = [("ent", r"^discr:call HashMap::<u64, (vector_cache::)?CachedVector>::entry$"), ("len", r"^call HashMap::<u64, (vector_cache::)?CachedVector>::len$"),
             ("cap", r"^\(\(\*\{arg\(_1: &VectorCache\)\}\)\.%d: usize\)$" % ci)]
    oc = {"evict": call(r"= LruIndex::<u64>::pop_lru\(", name="lru.pop_lru()"), "insert_new": call(r"= HashMap::<u64, (vector_cache::)?CachedVector>::insert\(", name="cache.insert(new entry)")}
    out += MD.decides(F, V + "insert", "entry", oc, atoms, {"evict": ("<=", "(and (= ent 1) (>= len cap))"), "insert_new": ("=>", "(and (= ent 1) (< len cap))")},
                      what="VectorCache::insert: a new key at len >= capacity evicts first; a new entry goes in without eviction only below capacity")
    # query-result cache (region: the key is not cached yet)
    atoms = [("len", r"^call HashMap::<(query_hash_cache::)?QueryCacheKey, (query_hash_cache::)?CachedQueryResult>::len$"), ("cap", r"^\(\(\*\{arg\(_1: &QueryHashCache\)\}\)\.%d: usize\)$" % qi)]
    start = Arm(r"^discr\(call HashMap::<(query_hash_cache::)?QueryCacheKey, (query_hash_cache::)?CachedQueryResult>::get::<", {"0"}, name="key not cached yet")
    oc = {"evict": call(r"= LruIndex::<(query_hash_cache::)?QueryCacheKey>::pop_lru\(", name="lru.pop_lru()"), "insert_new": call(r"= LruIndex::<(query_hash_cache::)?QueryCacheKey>::insert_new\(", name="lru.insert_new(key)")}
    out += MD.decides(F, Q + "insert_with_k_scoped_internal", start, oc, atoms, {"evict": ("<=", "(>= len cap)"), "insert_new": ("=>", "(< len cap)")},
                      what="QueryHashCache::insert: a new key at len >= capacity evicts first")
    # semantic embedding cache
    atoms = [("len", r"^call IndexMap::<u64, Vec<f32>>::len$"), ("cap", r"SemanticConfig\)\.%d: usize\)$" % mi)]
    oc = {"evict": call(r"= IndexMap::<u64, Vec<f32>>::shift_remove_index\(", name="entries.shift_remove_index(0)"), "insert_new": call(r"= IndexMap::<u64, Vec<f32>>::insert\(", name="entries.insert")}
    start = call(r"= IndexMap::<u64, Vec<f32>>::len\(", name="entries.len()")
    out += MD.decides(F, "semantic_adapter::SemanticAdapter::cache_embedding", start, oc, atoms, {"evict": ("<=", "(>= len cap)"), "insert_new": ("=>", "(< len cap)")},
                      what="SemanticAdapter::cache_embedding: at len >= max_cached_embeddings the oldest embedding is removed first")
    # recent-write tier hard limit
    atoms = [("len", r"^call HotTier::len$"), ("cap", r"TieredEngineConfig\)\.%d: usize\)$" % hi)]
    oc = {"drain": call(r"= TieredEngine::emergency_flush_hot_tier\(", name="emergency_flush_hot_tier()"), "hot_insert": call(r"= HotTier::insert_with_coherence\(", name="hot_tier.insert_with_coherence")}
    out += MD.decides(F, T + "insert", "entry", oc, atoms, {"drain": ("<=", "(>= len cap)"), "hot_insert": ("=>", "(< len cap)")},
                      what="TieredEngine::insert: at hot_tier.len() >= hot_tier_hard_limit the emergency drain runs before the hot insert")
    return out


MOS.append(MO("O20.7/capacity_decisions", "document cache, query-result cache, semantic embedding cache, recent-write tier: whenever size >= bound the evicting / draining call is reached before the new entry goes in, and a new "
              "entry goes in without it only when size < bound — proved for all values of size and bound (DECIDES)", capacity_decisions,
              functions=[("vector_cache.rs", "insert"), ("query_hash_cache.rs", "insert_with_k_scoped_internal"), ("semantic_adapter.rs", "cache_embedding"), ("tiered_engine.rs", "insert")]))


def prepare_lru_overlay(o):
    """cfg(kani): lru_index.rs takes its HashMap from the finite-map model crate::verif_map (DESIGN 6.2)."""
    ok = o.replace_once("lru_index.rs", "use std::collections::HashMap;",
                        "#[cfg(not(kani))]\nuse std::collections::HashMap;\n#[cfg(kani)]\nuse crate::verif_map::HashMap;",
                        "cfg(kani): HashMap in lru_index.rs is the finite-map model crate::verif_map")
    if not ok:
        raise RuntimeError("lru_index.rs import line `use std::collections::HashMap;` not found verbatim")


FL = [("lru_index.rs", f) for f in ("insert_new", "touch", "remove", "pop_lru", "detach")]
HARNESSES = [
    KH("O20.6/lru_histories_%d" % n, "c20_lru_histories_%d" % n,
       "LruIndex: every history of %d operations agrees step by step with the reference list (len, order head->tail and tail->head, return values; a removed key is no longer tracked)" % n,
       src="lru_index.rs", functions=FL, bounds="%d steps; per step symbolic kind in {insert_new, touch, remove, pop_lru} and symbolic key in 0..3; unwind 8" % n,
       assumptions=["finite-map model crate::verif_map instead of std HashMap (capacity 4)"], tier=t, timeout=to)
    for n, t, to in ((4, "quick", 900), (5, "thorough", 1500), (6, "thorough", 2400), (7, "thorough", 3000))
]


def run(tier, seed, notes):
    obls = run_mir_obligations("C20", tier, MOS, notes)
    obls += run_kani_group("C20", tier, "lib", {"lru_index.rs": "lru_index_proofs.rs"}, HARNESSES, support=("verif_map",), prepare=prepare_lru_overlay, jobs=4, notes=notes)
    return obls
