"""C12 — restoring a backup: verification before destruction, guarded clear, archive header parser."""
from vlib.mo import *
import re
from vlib.runner import KH, run_kani_group, run_mir_obligations

LEVEL = "other"
EXPLANATION = ("mirflow/z3: both restore entry points verify every archive of the chain before the target directory is cleared, clear before extracting, extract nothing on the dry-run arm; "
               "clear_data_directory deletes only with the explicit confirmation and not on dry-run; verify_backup_archive returns Ok only on checksum equality.  "
               "Kani: the archive member-name validator on arbitrary short byte strings.")
TRUSTED_BASE = ["rustc MIR", "z3", "callee summaries by name", "Kani/CBMC", "CRC strength (trusted)"]
NOT_COVERED = ["restored-content equality", "incremental selection by mtime", "single-byte corruption detection (CRC strength)",
               "retention bucketing arithmetic of prune_backups (which backup wins a bucket); the dependency clause is O12.4"]

R = "backup::RestoreManager::"
VERIFY = call(r"= RestoreManager::verify_backup_archive\(", name="verify_backup_archive")
CLEAR = call(r"= RestoreManager::clear_data_directory\(", name="clear_data_directory")
EXTRACT = call(r"= RestoreManager::extract_backup_archive\(", name="extract_backup_archive")
DRY = lambda n: Arm(r"^\(\(\*\{arg\(_%d: &ClearDirectoryOptions\)\}\)\.1: bool\)$" % n, {"otherwise"}, name="options.dry_run == true")


def restore_order(fn):
    f = R + fn
    return allof(
        *([precedes(f, VERIFY, CLEAR)] if fn == "restore_point_in_time_with_options" else []),  # by-id: the chain loop is data-abstract (zero iterations look possible)
        never(f, VERIFY, frm=CLEAR),  # no archive is verified only after the target was cleared
        never(f, VERIFY, frm=EXTRACT),
        *([only_via(f, CLEAR, Arm(r"^discr\(try\(call RestoreManager::verify_backup_archive\)\)$", {"0"}, name="verify_backup_archive()? -> Ok"))] if fn == "restore_point_in_time_with_options" else
          [never(f, CLEAR, frm=Arm(r"^discr\(try\(call RestoreManager::verify_backup_archive\)\)$", {"1"}, name="verify_backup_archive()? -> Err"))]),
        precedes(f, CLEAR, EXTRACT),
        only_via(f, EXTRACT, Arm(r"^discr\(try\(call RestoreManager::clear_data_directory\)\)$", {"0"}, name="clear_data_directory()? -> Ok")),
        never(f, EXTRACT, frm=DRY(3)),
    )


def chain_order(F):
    """restore_from_backup_with_options: the chain is collected child-first along the parent links and must be applied
    full -> oldest incremental -> ... -> requested backup.  The only ordering step is the reversal of the collected
    chain; ordering by any other key (timestamps have one-second granularity) does not give the chain order."""
    f = R + "restore_from_backup_with_options"
    fc = FnCheck(F, f)
    if fc.fn is None:
        return fc.missing()
    REV = call(r"= core::slice::<impl \[BackupMetadata\]>::reverse\(", name="chain.reverse()")
    OTHER = call(r"\[BackupMetadata\]>::(sort\w*|select_nth\w*|rotate\w*|swap)\b|Vec::<BackupMetadata>::(sort\w*|dedup\w*|swap_remove|insert)\b|as Iterator>::rev\b|Rev<", name="another re-ordering of the chain (sort/rev/insert)")
    PUSH = call(r"= Vec::<BackupMetadata>::push\(", name="chain.push(parent)")
    INCR = Arm(r"^call <BackupType as PartialEq>::eq$", {"0"}, name="requested backup is incremental", nth=0)
    out = []
    if fc.count(OTHER) > 0:
        r = fc.reachable(OTHER)
        if r.verdict == "holds":
            r = Result("violated", "the chain collected along the parent links is re-ordered by something other than its reversal (%s): incrementals with equal keys are applied newest-first and older files overwrite newer ones" % r.detail[:200],
                       queries=r.queries, seconds=r.seconds, sample={"fn": fc.name, "kind": "NEVER", "B": OTHER.name})
        out.append(r)
    if fc.count(REV) == 0:
        if not out:
            out.append(Result("inconclusive", "no chain.reverse() and no other recognised ordering step in %s" % fc.name))
        return out
    out.append(fc.precedes(REV, VERIFY, assume=[INCR]))
    if fc.count(REV) != 1:
        out.append(Result("violated", "%d reversal steps in %s: the collected chain must be reversed exactly once" % (fc.count(REV), fc.name), sample={"fn": fc.name, "kind": "COUNT", "B": REV.name}))
    out.append(fc.never(PUSH, frm=REV))  # the chain is complete when it is reversed
    out.append(fc.reachable(PUSH))  # (PRECEDES(push, reverse) is not expressible: the parent loop is data-abstract and zero iterations look possible)
    return out


OK_UNIT = stmt(r"^_0 = Result::<\(\), anyhow::Error>::Ok\(", name="return Ok(())")
REMOVE = call(r"= std::fs::remove_file::", name="fs::remove_file")
MOS = [
    MO("O12.4/prune_dependencies", "prune_backups: files are removed only for backups outside the keep set and not younger than min_age_days (DECIDES); the keep set is closed under parent_id before anything is removed",
       lambda F: prune_dependencies(F), functions=[("backup.rs", "prune_backups")], role="prune-ignores-parent-chain"),
    MO("O12.5/incremental_snapshot", "create_incremental_backup: the snapshot named by the shipped MANIFEST is archived whenever it is not the one the parent chain carries (structure + DECIDES + FOLLOWS), and is recorded in the metadata",
       lambda F: incremental_snapshot(F), functions=[("backup.rs", "create_incremental_backup"), ("backup.rs", "chain_snapshot_file")], role="incremental-omits-snapshot"),
    MO("O12.6/pitr_selection", "restore_point_in_time_with_options: the Full backup is the first (newest) one at or before the target, every chain hop is the first match of a scan of the newest-first list whose predicate requires parent == current and timestamp <= target",
       lambda F: pitr_selection(F), functions=[("backup.rs", "restore_point_in_time_with_options"), ("backup.rs", "list_backups_from_dir")], role="pitr-picks-wrong-backup"),
    MO("O12.7/source_consistency", "create_full_backup / create_incremental_backup: fingerprint < archive write < re-check, and the checksum the metadata needs is set only on the re-check's Ok arm",
       lambda F: source_consistency()(F), functions=[("backup.rs", "create_full_backup"), ("backup.rs", "create_incremental_backup"), ("backup.rs", "verify_source_fingerprints")]),
    MO("O12.8/restore_target", "open_restore_target: every extracted member is opened with write + create + truncate (a chain restore extracts MANIFEST once per backup: a shorter later copy must replace the earlier one, not overlay its prefix)",
       lambda F: restore_target(F), functions=[("backup.rs", "open_restore_target")]),
    MO("O12.1/limits", "archive header parser: the name buffer is allocated only for 0 < name_len <= MAX_NAME, Ok only for data_len <= MAX_SIZE, file count Ok only for count <= MAX_FILES — proved for all values (DECIDES)",
       lambda F: limits_decided(F), functions=[("backup.rs", "read_archive_member_header"), ("backup.rs", "read_archive_file_count")]),
    MO("O12.3/chain_order", "restore_from_backup_with_options: for an incremental target the chain pushed along the parent links is reversed exactly once before any archive is verified or extracted, and it is not re-ordered by any other key",
       chain_order, functions=[("backup.rs", "restore_from_backup_with_options")]),
    MO("O12.2/restore_by_id", "restore_from_backup_with_options: whole chain verified < clear (succeeded) < extract; nothing verified after the clear; dry-run extracts nothing",
       restore_order("restore_from_backup_with_options"), functions=[("backup.rs", "restore_from_backup_with_options")]),
    MO("O12.2/restore_pitr", "restore_point_in_time_with_options: same order", restore_order("restore_point_in_time_with_options"), functions=[("backup.rs", "restore_point_in_time_with_options")]),
    MO("O12.2/clear_decision", "clear_data_directory: remove_file => (allow_clear or environment confirmation) and not dry_run — for all settings (DECIDES)", lambda F: clear_decision(F),
       functions=[("backup.rs", "clear_data_directory")]),
    # (O12.2/clear_guard — NEVER obligations over regex-selected arms — was removed: it is subsumed by the value-level O12.2/clear_decision,
    #  and being path-insensitive it raised a false alarm on a semantically neutral re-formulation: hand mutant c12d)
    MO("O12.2/verify", "verify_backup_archive: Ok only when the archive exists, its structure parses and the computed checksum equals the recorded one",
       allof(only_via(R + "verify_backup_archive", stmt(r"^_0 = Result::<PathBuf, anyhow::Error>::Ok\(", name="return Ok(path)"), Arm(r"^ensure_not\(Eq\(", {"0"}, name="checksum equal")),
             only_via(R + "verify_backup_archive", stmt(r"^_0 = Result::<PathBuf, anyhow::Error>::Ok\(", name="return Ok(path)"), Arm(r"^discr\(try\(call <Result<u32, anyhow::Error> as anyhow::Context", {"0"}, name="compute_backup_checksum()? -> Ok")),
             only_via(R + "verify_backup_archive", stmt(r"^_0 = Result::<PathBuf, anyhow::Error>::Ok\(", name="return Ok(path)"), Arm(r"^call Path::exists$", {"otherwise"}, name="archive exists")),
             lambda F: _checksum_operands(F)),
       functions=[("backup.rs", "verify_backup_archive")]),
    MO("O12.1/header_checks", "read_archive_member_header: the member name is validated (validate_backup_member_name succeeded) before Ok (the size / count limits are decided value-level by O12.1/limits)",
       allof(only_via_call("backup::read_archive_member_header", stmt(r"^_0 = Result::<\(String, u64\), anyhow::Error>::Ok\(", name="return Ok((name,len))"),
                           call(r"= (backup::)?validate_backup_member_name\(", name="validate_backup_member_name"),
                           Arm(r"^discr\(try\(call (backup::)?validate_backup_member_name\)\)$", {"0"}, name="validate_backup_member_name()? -> Ok"))),
       functions=[("backup.rs", "read_archive_member_header"), ("backup.rs", "read_archive_file_count")]),
]


def prune_dependencies(F):
    """prune_backups: (a) a backup file is removed only if its id is not in the keep set and it is at least min_age old (DECIDES);
    (b) the keep set is closed under `parent_id`: besides the backups' own ids, the function inserts ids obtained from a
    `parent_id` field into the keep set, and does so before the first file is removed.  Without (b) a retained incremental
    loses an ancestor and can no longer be restored."""
    from vlib import mirdec as MD
    import vlib.mir as _M
    from vlib.mirflow import origin as _o
    P = "backup::BackupManager::prune_backups"
    REMOVE_B = call(r"= std::fs::remove_file::", name="fs::remove_file(backup file)")
    KEEP_INS = call(r"= HashSet::<(uuid::)?Uuid>::insert\(", name="to_keep.insert")
    pi = field_index("backup.rs", "BackupMetadata", "parent_id")
    ii = field_index("backup.rs", "BackupMetadata", "id")
    mi = field_index("backup.rs", "RetentionPolicy", "min_age_days")
    if None in (pi, ii, mi):
        return [Result("inconclusive", "BackupMetadata.parent_id / id or RetentionPolicy.min_age_days not found")]
    out = []
    atoms = [("kept", r"^call HashSet::<(uuid::)?Uuid>::contains::<"), ("age", r"^call core::num::<impl u64>::saturating_sub$"),
             ("min_age_days", r"^\(\(\*\{arg\(_2: &RetentionPolicy\)\}\)\.%d: u64\)$" % mi)]
    start = Arm(r"^call HashSet::<(uuid::)?Uuid>::contains::<", {"0", "otherwise"}, name="keep-set test of a backup")
    out += MD.decides(F, P, call(r"= HashSet::<(uuid::)?Uuid>::contains::<", name="to_keep.contains(backup.id)"), {"remove": REMOVE_B}, atoms, {"remove": ("=>", "(and (not kept) (>= age (* min_age_days 86400)))")},
                      declare=("kept",), containing=REMOVE_B, what="prune_backups removes a backup's files only if it is not in the keep set and not younger than min_age_days")
    fc = FnCheck(F, P, containing=REMOVE_B)
    if fc.fn is None:
        return out + [fc.missing()]
    fn = fc.fn
    # (b) closure under parent_id
    reads_parent = False
    for name, f2 in F.items():
        if "prune_backups" not in name:
            continue
        for b in f2.blocks.values():
            if b.cleanup:
                continue
            txt = " ".join(b.stmts) + " " + (b.term or "")
            if re.search(r"\.%d: (std::option::)?Option<(uuid::)?Uuid>\)" % pi, txt):
                reads_parent = True
    foreign = []
    for b in fn.blocks.values():
        if not b.cleanup and KEEP_INS.match_block(fn, b):
            a = _M._split_top(b.args)
            src = _o(fn, a[1]) if len(a) > 1 else "?"
            if re.search(r" as Some\)\.0: (uuid::)?Uuid\)$", src) or not re.search(r"\)\.%d: (uuid::)?Uuid\)$" % ii, src):
                foreign.append((b.idx, src))  # an Option<Uuid> payload (a parent id) or anything else that is not `<backup>.id`
    r = fc.reachable(REMOVE_B)
    smp = {"fn": fc.name, "kind": "PROVENANCE", "reads_parent_id": reads_parent, "keep_set_inserts_other_than_own_id": [s_[:80] for _i, s_ in foreign][:4]}
    if not (reads_parent and foreign):
        out.append(Result("violated", "prune_backups never adds the parents of retained backups to the keep set (%s): the newest backup of a bucket can be an incremental whose full backup is deleted, "
                          "after which the retained incremental cannot be restored" % ("parent_id is never read" if not reads_parent else "no id other than a backup's own is inserted into the keep set"),
                          queries=r.queries, seconds=r.seconds, sample=smp))
    else:
        out.append(Result("holds", "the keep set also receives ids taken from parent_id", queries=r.queries, seconds=r.seconds, sample=smp))
        PARENT_INS = Ev(r"= HashSet::<(uuid::)?Uuid>::insert\(", kind="call", also=lambda f, b, t, idxs=set(i for i, _s in foreign): b.idx in idxs, name="to_keep.insert(parent id)")
        # the closure is complete before the first removal (PRECEDES is not expressible: a chain-free timeline inserts no parent)
        out.append(fc.never(PARENT_INS, frm=REMOVE_B))
        out.append(fc.reachable(PARENT_INS))
    return out


def incremental_snapshot(F):
    """create_incremental_backup ships the current MANIFEST.  The MANIFEST names a snapshot; when that snapshot is not the one
    the parent chain already carries, the chain is restorable only if this archive carries it (the segments the snapshot
    covers may have been compacted away since the parent backup).
    (a) structure: the function reads Manifest.latest_snapshot and archives a file named by it (ArchiveEntry::from_path whose
        name is the payload of an Option<String>, not an item of the segment list);
    (b) decision (DECIDES, from the chain comparison on): the snapshot entry is pushed iff the referenced snapshot differs from
        the chain's (and exists; a missing file is an error, never a silent omission);
    (c) the recorded metadata.snapshot_file is Some exactly on that path."""
    from vlib import mirdec as MD
    import vlib.mir as _M
    from vlib.mirflow import origin as _o
    C = "backup::BackupManager::create_incremental_backup"
    fc = FnCheck(F, C)
    if fc.fn is None:
        return [fc.missing()]
    fn = fc.fn
    li = field_index("persistence.rs", "Manifest", "latest_snapshot")
    if li is None:
        return [Result("inconclusive", "Manifest.latest_snapshot not found")]
    MANIFEST_SHIPPED = call(r"= ArchiveEntry::from_bytes::<&str>\(const \"MANIFEST\"", name="ArchiveEntry::from_bytes(\"MANIFEST\", ..)")
    reads = False
    for b in fn.blocks.values():
        if b.cleanup:
            continue
        for st in b.stmts:
            m = re.search(r"\((_\d+)\.%d: (std::option::)?Option<(std::string::)?String>\)" % li, st)
            if m and "Manifest" in (fn.locals.get(m.group(1)) or ""):
                reads = True
    snap_blocks = set()
    for b in fn.blocks.values():
        if b.cleanup or b.kind != "call" or not re.search(r"= ArchiveEntry::from_path::<", b.term or ""):
            continue
        a = _M._split_top(b.args)
        src = _o(fn, a[0]) if a else "?"
        if re.search(r"as Some\)\.0: (std::string::)?String\)$", src) and "Iterator>::next" not in src:
            snap_blocks.add(b.idx)
    r = fc.reachable(MANIFEST_SHIPPED)
    if r.verdict != "holds":
        return [r]
    smp = {"fn": fc.name, "kind": "PROVENANCE", "reads_latest_snapshot": reads, "snapshot_entries": ["bb%d" % i for i in sorted(snap_blocks)]}
    if not (reads and snap_blocks):
        return [Result("violated", "create_incremental_backup ships the current MANIFEST but never archives the snapshot it names (%s): after a snapshot + WAL compaction between the parent "
                       "and this backup, the restored chain lacks that snapshot and the segments it covered" % ("Manifest.latest_snapshot is never read" if not reads else "no archive entry is named by it"),
                       queries=r.queries, seconds=r.seconds, sample=smp)]
    out = [Result("holds", "the snapshot named by the shipped MANIFEST is archived (%s)" % ", ".join(smp["snapshot_entries"]), queries=r.queries, seconds=r.seconds, sample=smp)]
    SNAP_ENTRY = Ev(r"= ArchiveEntry::from_path::<", kind="call", also=lambda f, b, t: b.idx in snap_blocks, name="entries.push(snapshot named by the MANIFEST)")
    CHAIN = call(r"= BackupManager::chain_snapshot_file\(", name="chain_snapshot_file(parent)")
    # the comparison with the chain's snapshot may be written with != or ==
    forms = set(m_.group(1) for b in fn.blocks.values() if not b.cleanup and b.kind == "call" for m_ in [re.search(r"<(?:std::option::)?Option<&str> as PartialEq>::(ne|eq)\(", b.term or "")] if m_)
    if len(forms) != 1:
        return out + [Result("inconclusive", "comparison of the referenced snapshot with the chain's snapshot not recognised (%s)" % sorted(forms))]
    form = forms.pop()
    differs = "cmp" if form == "ne" else "(not cmp)"
    atoms = [("cmp", r"^call <Option<&str> as PartialEq>::%s$" % form), ("exists", r"^call Path::exists$")]
    out += MD.decides(F, C, CHAIN, {"ship": SNAP_ENTRY}, atoms, {"ship": "(and %s exists)" % differs}, declare=("cmp", "exists"), containing=SNAP_ENTRY,
                      what="the referenced snapshot is archived iff it differs from the snapshot the parent chain carries (and the file exists)")
    # a snapshot that differs is never skipped silently: from the `differs` arm the Ok exit is reached only through the entry
    out.append(fc.follows(Arm(r"^call <Option<&str> as PartialEq>::%s$" % form, {"otherwise"} if form == "ne" else {"0"}, name="referenced snapshot != chain snapshot"), SNAP_ENTRY, exit="ok"))
    # (c) metadata.snapshot_file
    sf = None
    for b in fn.blocks.values():
        for st in b.stmts:
            m = re.search(r"BackupMetadata \{.*snapshot_file: (?:move |copy )?(_\d+)", st)
            if m and not b.cleanup:
                sf = _o(fn, m.group(1))
    if sf is None or not re.search(r"Option::<(std::string::)?String>::Some\(", sf):
        out.append(Result("violated", "the backup metadata never records the archived snapshot (snapshot_file = %s)" % (sf or "?")[:80], sample={"fn": fc.name, "kind": "PROVENANCE", "snapshot_file": (sf or "?")[:120]}))
    else:
        out.append(Result("holds", "metadata.snapshot_file = %s" % sf[:80], sample={"fn": fc.name, "kind": "PROVENANCE", "snapshot_file": sf[:120]}))
    return out


def pitr_selection(F):
    """restore_point_in_time_with_options picks (1) the first Full backup with timestamp <= target in the newest-first list and
    (2) hop by hop the first Incremental in that list whose parent is the current backup and whose timestamp <= target — i.e.
    the *newest* eligible child.  Decided structurally on the MIR: the list order (sort closure compares b.timestamp with
    a.timestamp), the provenance of every chain hop (payload of Iterator::find over the list), the three conjuncts guarding
    the predicate's only non-false result, and the break after the first matching Full."""
    import vlib.mir as _M
    from vlib.mirflow import origin as _o
    P = "backup::RestoreManager::restore_point_in_time_with_options"
    fc = FnCheck(F, P)
    if fc.fn is None:
        return [fc.missing()]
    fn = fc.fn
    ti = field_index("backup.rs", "BackupMetadata", "timestamp")
    pi = field_index("backup.rs", "BackupMetadata", "parent_id")
    if ti is None or pi is None:
        return [Result("inconclusive", "BackupMetadata.timestamp / parent_id not found")]
    out = []
    # (a) list order: newest first
    desc = None
    for name, f2 in F.items():
        if not re.search(r"(^|::)list_backups_from_dir::\{closure#\d+\}$", name):
            continue
        for b in f2.blocks.values():
            if b.kind == "call" and re.search(r"<u64 as Ord>::cmp", b.term or ""):
                a = _M._split_top(b.args)
                o0, o1 = _o(f2, a[0]), _o(f2, a[1])
                if re.search(r"arg\(_3.*\.%d: u64\)" % ti, o0) and re.search(r"arg\(_2.*\.%d: u64\)" % ti, o1):
                    desc = True
                elif re.search(r"arg\(_2.*\.%d: u64\)" % ti, o0) and re.search(r"arg\(_3.*\.%d: u64\)" % ti, o1):
                    desc = False
    if desc is None:
        out.append(Result("inconclusive", "sort comparator of list_backups_from_dir not recognised"))
    elif not desc:
        out.append(Result("violated", "list_backups_from_dir sorts oldest-first: PITR's first-match scans then pick the oldest eligible backup", sample={"fn": "list_backups_from_dir", "kind": "PROVENANCE"}))
    else:
        out.append(Result("holds", "list_backups_from_dir sorts by cmp(b.timestamp, a.timestamp): newest first", sample={"fn": "list_backups_from_dir", "kind": "PROVENANCE"}))
    # (b) every chain hop is the payload of a first-match scan (Iterator::find) over the list
    HOP = call(r"= Vec::<&(backup::)?BackupMetadata>::push\(", name="incrementals.push(next hop)")
    hops = []
    for b in fn.blocks.values():
        if not b.cleanup and HOP.match_block(fn, b):
            a = _M._split_top(b.args)
            hops.append((b.idx, _o(fn, a[1]) if len(a) > 1 else "?"))
    if not hops:
        return out + [Result("inconclusive", "no chain hop (Vec<&BackupMetadata>::push) in " + P)]
    foreign = [(i, o) for i, o in hops if not re.search(r"^\(\(\{call <(std::slice::)?Iter<'_, (backup::)?BackupMetadata> as Iterator>::find::<\{closure@.*\} as Some\)\.0: &(backup::)?BackupMetadata\)$", o)]
    smp = {"fn": fc.name, "kind": "PROVENANCE", "hops": [o[:120] for _i, o in hops]}
    if foreign:
        out.append(Result("inconclusive", "chain hop bb%d is not the first match of a scan over the newest-first backup list (%s)" % (foreign[0][0], foreign[0][1][:100]), sample=smp))
        return out
    out.append(Result("holds", "every chain hop is the first match of Iterator::find over the newest-first list", sample=smp))
    # (c) the predicate: its only non-false result is guarded by parent == Some(current) and timestamp <= target
    preds = [n for n, f2 in F.items() if n.startswith(P + "::{closure#") and any(b.kind == "call" and re.search(r"<(std::option::)?Option<(uuid::)?Uuid> as PartialEq>::eq", b.term or "") for b in f2.blocks.values())]
    if len(preds) != 1:
        return out + [Result("inconclusive", "find predicate closure not identified (%d candidates)" % len(preds))]
    Q = preds[0]
    qc = FnCheck(F, Q)
    TYPE_EQ = call(r"^_0 = <(backup::)?BackupType as PartialEq>::eq\(", name="return b.backup_type == Incremental")
    out.append(qc.only_via(TYPE_EQ, Arm(r"^call <Option<Uuid> as PartialEq>::eq$", {"otherwise"}, name="b.parent_id == Some(current_id)")))
    out.append(qc.only_via(TYPE_EQ, Arm(r"^Le\(\(\(\*\{.*\(\*_2\)\}\)\.%d: u64\), \(\*\{.*\(\(\*_1\)\.\d+: &u64\)\}\)\)$" % ti, {"otherwise"}, name="b.timestamp <= target")))
    qfn = qc.fn
    other = [st for b in qfn.blocks.values() if not b.cleanup for st in b.stmts if re.match(r"^_0 = ", st) and not re.match(r"^_0 = const false;$", st)]
    if other:
        out.append(Result("violated", "the chain predicate has another non-false result: %s" % other[0][:80], sample={"fn": Q, "kind": "PROVENANCE"}))
    pa = [(_o(qfn, _M._split_top(b.args)[0]), _o(qfn, _M._split_top(b.args)[1])) for b in qfn.blocks.values() if b.kind == "call" and re.search(r"Option<(uuid::)?Uuid> as PartialEq>::eq", b.term or "")]
    if not (pa and re.search(r"\.%d: (std::option::)?Option<(uuid::)?Uuid>\)$" % pi, pa[0][0]) and "Some(" in pa[0][1]):
        out.append(Result("violated", "the chain predicate does not compare b.parent_id with Some(current_id): %s" % str(pa)[:120], sample={"fn": Q, "kind": "PROVENANCE"}))
    # (d) the Full backup: first list element with timestamp <= target and type Full, then break
    FULL_SET = stmt(r"^_\d+ = (std::option::)?Option::<&(backup::)?BackupMetadata>::Some\(", name="full_backup = Some(backup)")
    NEXT = call(r"= <(std::slice::)?Iter<'_, (backup::)?BackupMetadata> as Iterator>::next\(", name="next backup of the list")
    out.append(fc.only_via(FULL_SET, Arm(r"^Le\(\(\(\*.*Iterator>::next\} as Some\)\.0: &(backup::)?BackupMetadata\)\}\)\.%d: u64\), arg\(_2: u64\)\)$" % ti, {"otherwise"}, name="backup.timestamp <= target")))
    out.append(fc.only_via(FULL_SET, Arm(r"^call <BackupType as PartialEq>::eq$", {"otherwise"}, name="backup.backup_type == Full")))
    out.append(fc.never(NEXT, frm=FULL_SET))
    return out


def source_consistency():
    """create_full_backup / create_incremental_backup: the source files are fingerprinted before the archive is written and
    re-checked after it; the checksum that goes into the backup metadata is set only on the Ok arm of that re-check (the
    metadata takes it through `checksum.expect(..)`, so no metadata exists without a successful re-check)."""
    from vlib.mirflow import origin as _o
    cs = []
    for f in ("backup::BackupManager::create_full_backup", "backup::BackupManager::create_incremental_backup"):
        FP = call(r"= (backup::)?snapshot_source_fingerprints\(", name="snapshot_source_fingerprints")
        WR = call(r"= (backup::)?write_backup_archive\(", name="write_backup_archive")
        VF = call(r"= (backup::)?verify_source_fingerprints\(", name="verify_source_fingerprints")
        SET = stmt(r"^_\d+ = (std::option::)?Option::<u32>::Some\(", name="checksum = Some(written_checksum)")
        VF_OK = Arm(r"^discr\(call (backup::)?verify_source_fingerprints\)$", {"0"}, name="verify_source_fingerprints -> Ok")

        def meta_checksum(F, f=f):
            fc = FnCheck(F, f)
            if fc.fn is None:
                return fc.missing()
            for b in fc.fn.blocks.values():
                for st in b.stmts:
                    m = re.search(r"BackupMetadata \{.*checksum: (?:copy |move )?(_\d+)", st)
                    if m and not b.cleanup:
                        o = _o(fc.fn, m.group(1))
                        ok = bool(re.search(r"^call Option::<u32>::expect$", o))
                        return Result("holds" if ok else "inconclusive", "metadata.checksum = %s" % o[:80], sample={"fn": fc.name, "kind": "PROVENANCE", "checksum": o[:100]})
            return Result("inconclusive", "BackupMetadata construction not found in " + f)
        cs += [precedes(f, FP, WR), precedes(f, WR, VF), only_via_call(f, SET, VF, VF_OK, why="the archive may mix two states of a file that changed while it was copied"), meta_checksum]
    return allof(*cs)


def restore_target(F):
    """open_restore_target (unix): OpenOptions::write(true), create(true) and truncate(true) all precede the open.  A flag that
    is never set (or set to false) while the open is reached is a violation, not a pattern failure: the call names are std's."""
    f = "backup::open_restore_target"
    fc = FnCheck(F, f)
    if fc.fn is None:
        return [fc.missing()]
    OPEN = call(r"= (std::fs::)?OpenOptions::open::<", name="OpenOptions::open")
    if fc.count(OPEN) == 0:
        # File::create (write + create + truncate by definition) is the other accepted form
        if fc.count(call(r"= (std::fs::)?File::create::<", name="File::create")) > 0:
            return [Result("holds", "restore targets are created with File::create (truncating)", sample={"fn": fc.name, "kind": "PROVENANCE"})]
        return [Result("inconclusive", "open_restore_target opens its file in an unrecognised way")]
    out = []
    for o in ("write", "create", "truncate"):
        SET = call(r"= (std::fs::)?OpenOptions::%s\((move |copy )?_\d+, const true\)" % o, name="OpenOptions::%s(true)" % o)
        if fc.count(SET) == 0:
            r = fc.reachable(OPEN)
            out.append(Result("violated" if r.verdict == "holds" else "inconclusive", "restore targets are opened without %s(true): %s" % (o, "a later, shorter copy of a member extracted twice in a chain restore (MANIFEST) "
                              "overwrites only the prefix of the earlier copy; the restored directory does not start" if o == "truncate" else "the member cannot be written"), queries=r.queries, seconds=r.seconds,
                              sample={"fn": fc.name, "kind": "PRECEDES", "missing": "OpenOptions::%s(true)" % o}))
        else:
            out.append(fc.precedes(SET, OPEN))
    return out


def clear_decision(F):
    """clear_data_directory: a file of the target directory is removed only if (allow_clear or the BACKUP_ALLOW_CLEAR confirmation)
    and not dry_run — the decision for all four settings (DECIDES); field numbers from the struct definition."""
    from vlib import mirdec as MD
    ai = field_index("backup.rs", "ClearDirectoryOptions", "allow_clear")
    di = field_index("backup.rs", "ClearDirectoryOptions", "dry_run")
    if ai is None or di is None:
        return [Result("inconclusive", "ClearDirectoryOptions.allow_clear / dry_run not found")]
    atoms = [("allow_clear", r"^\(\(\*\{arg\(_2: &ClearDirectoryOptions\)\}\)\.%d: bool\)$" % ai), ("dry_run", r"^\(\(\*\{arg\(_2: &ClearDirectoryOptions\)\}\)\.%d: bool\)$" % di),
             ("env_confirm", r"^call Result::<bool, (std::env::)?VarError>::unwrap_or$")]
    return MD.decides(F, R + "clear_data_directory", "entry", {"remove": REMOVE}, atoms, {"remove": ("=>", "(and (or allow_clear env_confirm) (not dry_run))")},
                      declare=("allow_clear", "dry_run", "env_confirm"), what="clear_data_directory removes files only with a confirmation (allow_clear or BACKUP_ALLOW_CLEAR=true) and never on dry-run")


def limits_decided(F):
    """The archive header parser accepts a member / a file count only inside the documented limits — as DECIDES
    obligations over (name_len, data_len, count) and the three limit constants (for all values)."""
    from vlib import mirdec as MD
    out = []
    atoms = [("name_len", r"^call core::num::<impl u32>::from_le_bytes$"), ("data_len", r"^call core::num::<impl u64>::from_le_bytes$"),
             ("max_name", r"^const (backup::)?MAX_BACKUP_MEMBER_NAME_BYTES$"), ("max_size", r"^const (backup::)?MAX_BACKUP_MEMBER_SIZE_BYTES$")]
    oc = {"ok": stmt(r"^_0 = Result::<\(String, u64\), anyhow::Error>::Ok\(", name="return Ok((name, len))"), "alloc": call(r"from_elem::<u8>\(", name="allocate the name buffer")}
    out += MD.decides(F, "backup::read_archive_member_header", "entry", {"alloc": oc["alloc"]}, atoms, {"alloc": ("=>", "(and (> name_len 0) (<= name_len max_name))")},
                      what="read_archive_member_header allocates the name buffer only for 0 < name_len <= MAX_BACKUP_MEMBER_NAME_BYTES")
    out += MD.decides(F, "backup::read_archive_member_header", call(r"from_elem::<u8>\(", name="after the name buffer"), {"ok": oc["ok"]}, atoms, {"ok": ("=>", "(<= data_len max_size)")},
                      what="read_archive_member_header returns Ok only for data_len <= MAX_BACKUP_MEMBER_SIZE_BYTES")
    atoms = [("count", r"^call core::num::<impl u32>::from_le_bytes$"), ("max_files", r"^const (backup::)?MAX_BACKUP_ARCHIVE_FILES$")]
    out += MD.decides(F, "backup::read_archive_file_count", "entry", {"ok": stmt(r"^_0 = Result::<u32, anyhow::Error>::Ok\(", name="return Ok(count)")}, atoms, {"ok": ("=>", "(<= count max_files)")},
                      what="read_archive_file_count returns Ok only for count <= MAX_BACKUP_ARCHIVE_FILES")
    return out


def _checksum_operands(F):
    """The equality that guards Ok compares the computed checksum with metadata.checksum."""
    import re as _re
    from vlib.mirflow import origin as _o, find_fn
    rn, fn = find_fn(F, R + "verify_backup_archive")
    if fn is None:
        return Result("inconclusive", "verify_backup_archive not found")
    for b in fn.blocks.values():
        if b.cleanup:
            continue
        for s_ in b.stmts:
            m = _re.match(r"^(_\d+) = Eq\((.*)\);$", s_)
            if m:
                import vlib.mir as _M
                ops = [_o(fn, x) for x in _M._split_top(m.group(2))]
                txt = " == ".join(ops)
                if "with_context" in txt and _re.search(r"arg\(_2: &(backup::)?BackupMetadata\)\}\)\.\d+: u32", txt):
                    return Result("holds", "guard compares " + txt[:160], sample={"fn": rn, "kind": "PROVENANCE", "eq": txt[:200]})
    return Result("violated", "no equality between the computed checksum and metadata.checksum guards the result")


def run(tier, seed, notes):
    from vlib import replay as RP
    obls = run_mir_obligations("C12", tier, MOS, notes)
    for o in obls:
        if o.oid == "O12.4/prune_dependencies" and o.verdict == "violated" and "never adds the parents" in (o.detail or ""):
            r = RP.run_scenario(["prune-breaks-chain"], timeout=300, notes=notes)
            if r.get("reproduced") is not None:
                o.replay = r
                o.detail += " | native replay: " + str(r.get("output"))[:220]
        if o.oid == "O12.6/pitr_selection" and o.verdict in ("violated", "inconclusive") and ("chain hop" in (o.detail or "") or "oldest-first" in (o.detail or "")):
            # the selection is not in the recognised first-match form: let the real code decide on a branching backup graph
            r = RP.run_scenario(["pitr-siblings"], timeout=300, notes=notes)
            if r.get("reproduced"):
                o.verdict = "violated"
                o.replay = r
                o.detail += " | native replay: " + str(r.get("output"))[:260]
            elif r.get("reproduced") is False:
                o.verdict = "inconclusive"
                o.detail += " | native replay did not reproduce a wrong restore: " + str(r.get("output"))[:160]
        if o.oid == "O12.5/incremental_snapshot" and o.verdict == "violated" and "never archives the snapshot" in (o.detail or ""):
            r = RP.run_scenario(["incremental-after-snapshot"], timeout=300, notes=notes)
            if r.get("reproduced") is not None:
                o.replay = r
                o.detail += " | native replay: " + str(r.get("output"))[:220]
    return obls
