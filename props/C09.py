"""C09 — snapshots/compaction racing with writers: lock-region obligations (engine M)."""
from vlib.mo import *
from vlib.runner import run_mir_obligations

ENGINES = "M"
LEVEL = "other"
EXPLANATION = ("The property's own mechanism list as region obligations over MIR: sequence numbers are allocated, the WAL appended and the store mutated while the "
               "snapshot lock is held shared and the write gate is held; the snapshotter reads (last seq, store) under the exclusive snapshot lock; manifest "
               "read-modify-write under the manifest lock; stale snapshot never published.  HELD queries are z3 reachability over the CFG x guard-liveness product.")
TRUSTED_BASE = ["rustc MIR (drop elaboration makes guard drops explicit)", "z3", "guard alias tracking: `_x = move _guard` chains; moves into calls count as release"]
NOT_COVERED = ["the interleavings themselves and post-restart equality (nothing is explored when all obligations are unsat)", "that these regions suffice (paper argument in the property's anchors)"]

H = "hnsw_backend::HnswBackend::"
SNAP_READ = call(r"Option::<&PersistenceState>::map::<RwLockReadGuard<'_, \(\)>", name="persistence.map(|p| p.snapshot_lock.read())")
SNAP_WRITE_OPT = call(r"Option::<&PersistenceState>::map::<RwLockWriteGuard<'_, \(\)>", name="persistence.map(|p| p.snapshot_lock.write())")
SNAP_READ_OPT = call(r"Option::<&PersistenceState>::map::<RwLockReadGuard<'_, \(\)>", name="persistence.map(|p| p.snapshot_lock.read())")
SNAP_WRITE = call(r"= RwLock::<\(\)>::write\(", name="snapshot_lock.write()")
SNAP_SHARED = call(r"= RwLock::<\(\)>::(read|upgradable_read|try_read)\(", name="snapshot_lock.read()")
GATE = call(r"= Mutex::<\(\)>::lock\(", name="write_gate.lock()")
MANIFEST_LOCK = call(r"= Mutex::<\(\)>::lock\(", name="manifest_lock.lock()")
SEQ_LOAD = call(r"= Atomic::<u64>::load\(", name="next_wal_seq.load")
MAN_SAVE = call(r"= Manifest::save::", name="Manifest::save")
MAN_LOAD = call(r"= Manifest::load::", name="Manifest::load")
COMPACT_WAL = call(r"= HnswBackend::compact_old_wal_segments\(", name="compact_old_wal_segments")
COLLECT = call(r"as Iterator>::collect::<Vec<\(u64, ", name="collect documents/metadata")


def writer(fn, store_mutations):
    f = H + fn
    cs = [precedes(f, SNAP_READ, SEQ_FETCH_ADD), precedes(f, GATE, SEQ_FETCH_ADD)]
    for ev in [SEQ_FETCH_ADD, WAL_APPEND] + store_mutations:
        cs.append(held(f, SNAP_READ, ev, assume=[PERSIST_SOME]))
        cs.append(held(f, GATE, ev, assume=[PERSIST_SOME]))
    return allof(*cs)


MOS = [
    MO("O9.1/insert", "insert: snapshot_lock.read() and write_gate held from sequence allocation through WAL append to index/doc_store/metadata_index mutation",
       writer("insert", [INDEX_WRITE, DOCSTORE_WRITE, METAIDX_WRITE, call(r"= Vec::<Vec<f32>>::push\(", name="store.embeddings.push")]), functions=[("hnsw_backend.rs", "insert")]),
    MO("O9.1/delete", "delete: same region", writer("delete", [DOCSTORE_WRITE, METAIDX_WRITE, call(r"= HashMap::<u64, usize>::remove", name="external_to_internal.remove")]), functions=[("hnsw_backend.rs", "delete")]),
    MO("O9.1/update_metadata", "update_metadata: same region", writer("update_metadata", [DOCSTORE_WRITE, METAIDX_WRITE]), functions=[("hnsw_backend.rs", "update_metadata")]),
    MO("O9.1/batch_delete", "batch_delete: snapshot lock held over seq allocation, append_batch, doc_store and metadata_index mutation; write gate over seq allocation, append_batch and doc_store mutation",
       allof(precedes(H + "batch_delete", SNAP_READ, SEQ_FETCH_ADD), precedes(H + "batch_delete", GATE, SEQ_FETCH_ADD),
             *[held(H + "batch_delete", SNAP_READ, ev, assume=[PERSIST_SOME]) for ev in (SEQ_FETCH_ADD, WAL_APPEND, DOCSTORE_WRITE, METAIDX_WRITE)],
             *[held(H + "batch_delete", GATE, ev, assume=[PERSIST_SOME]) for ev in (SEQ_FETCH_ADD, WAL_APPEND, DOCSTORE_WRITE)]),
       functions=[("hnsw_backend.rs", "batch_delete")]),
    MO("O9.2/create_snapshot", "create_snapshot: (last seq, store contents) read under the exclusive snapshot lock; MANIFEST load/save x2 and WAL compaction under the manifest lock; stale snapshot not published",
       allof(held(H + "create_snapshot", SNAP_WRITE, SEQ_LOAD, weaker=SNAP_SHARED), held(H + "create_snapshot", SNAP_WRITE, DOCSTORE_READ, weaker=SNAP_SHARED), held(H + "create_snapshot", SNAP_WRITE, COLLECT, weaker=SNAP_SHARED),
             held(H + "create_snapshot", MANIFEST_LOCK, MAN_LOAD), held(H + "create_snapshot", MANIFEST_LOCK, MAN_SAVE), held(H + "create_snapshot", MANIFEST_LOCK, COMPACT_WAL),
             precedes(H + "create_snapshot", SEQ_LOAD, DOCSTORE_READ),
             never(H + "create_snapshot", MAN_SAVE, assume=[Arm(r"^(Gt|Ge)\(call Option::<u64>::unwrap_or, call core::num::<impl u64>::saturating_sub\)$", {"otherwise"}, name="latest_snapshot_seq > last_wal_seq")])),
       functions=[("hnsw_backend.rs", "create_snapshot")]),
    MO("O9.3/rotate", "rotate_wal_if_needed: MANIFEST load and save under the manifest lock",
       allof(held("hnsw_backend::PersistenceState::rotate_wal_if_needed", MANIFEST_LOCK, MAN_LOAD), held("hnsw_backend::PersistenceState::rotate_wal_if_needed", MANIFEST_LOCK, MAN_SAVE)),
       functions=[("hnsw_backend.rs", "rotate_wal_if_needed")]),
    MO("O9.4/compact_tombstones", "compact_tombstones: exclusive snapshot lock held over index/doc_store/metadata_index replacement",
       allof(*[held(H + "compact_tombstones", SNAP_WRITE_OPT, ev, weaker=SNAP_READ_OPT) for ev in (INDEX_WRITE, DOCSTORE_WRITE, METAIDX_WRITE)]),
       functions=[("hnsw_backend.rs", "compact_tombstones")]),
]


def run(tier, seed, notes):
    return run_mir_obligations("C09", tier, MOS, notes)
