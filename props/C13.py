"""C13 — strict recovery never silently returns damaged state (engine M)."""
from vlib.mo import *
from vlib.mirflow import exit_event
import re
from vlib.runner import run_mir_obligations

ENGINES = "M"
LEVEL = "other"
EXPLANATION = ("MIR path obligations decided by z3: the Strict arms of recovery (missing segment, corrupt snapshot, dimension/metric mismatch, strict reader) cannot reach the Ok exit; "
               "the WAL reader counts every abandoned frame except the end-of-file arms; two no-silent-loss obligations are expected to be satisfiable on the current tree "
               "(fallback snapshot accepted under Strict; mid-frame EOF not recorded) and are reported as known findings after native replay.")
TRUSTED_BASE = ["rustc MIR", "z3", "callee summaries by name", "CRC-32 detection strength (trusted mathematics)"]
NOT_COVERED = ["CRC-32's detection guarantees", "manifest JSON damage", "damage through the real server binary", "byte-level reader behaviour on arbitrary damaged logs (bincode over free bytes is beyond CBMC: probe > 3 min)"]

R = "hnsw_backend::HnswBackend::recover_with_hnsw_params_and_mode"
STRICT = Arm(r"^discr\(arg\(_\d+: (config::)?RecoveryMode\)\)$", {"0"}, name="recovery_mode == Strict")
OK_SELF = stmt(r"^_0 = Result::<HnswBackend, anyhow::Error>::Ok\(", name="return Ok(backend)")
READ_ALL = call(r"= WalReader::read_all\(", name="WalReader::read_all (tolerant)")
READ_STRICT = call(r"= WalReader::read_all_strict\(", name="WalReader::read_all_strict")
WAL_MISSING = Arm(r"^call Path::exists$", {"0"}, name="wal_path.exists() == false", nth=1)
SNAP_ERR = Arm(r"^discr\(call Snapshot::load_with_validation::<&PathBuf>\)$", {"1"}, name="load_with_validation -> Err", nth=0)
FALLBACK = Arm(r"load_with_validation::<&PathBuf>\} as Ok\)\.0: \(persistence::Snapshot, bool\)\)\.1: bool\)$", {"otherwise"}, name="recovered_from_fallback == true")

def frame_acceptance(F):
    """WalReader::read_all: a frame's payload is deserialised and pushed only if 0 < len <= MAX_WAL_ENTRY_BYTES and the stored
    checksum equals the computed one (DECIDES, for all values of len / stored crc / computed crc)."""
    from vlib import mirdec as MD
    atoms = [("len", r"^call core::num::<impl u32>::from_le_bytes$", "\u27e8[^\u27e9]*(size|len)"), ("stored", r"^call core::num::<impl u32>::from_le_bytes$", "\u27e8[^\u27e9]*(check|crc)"),
             ("computed", r"^call crc32fast::hash$"), ("max", r"^const (persistence::)?MAX_WAL_ENTRY_BYTES$")]
    start = call(r"as std::io::Read>::read_exact\(", name="frame reads")
    return MD.decides(F, RD, "entry", {"push": PUSH}, atoms, {"push": ("=>", "(and (> len 0) (<= len max) (= stored computed))")}, containing=PUSH,
                      what="read_all pushes an entry only from a frame with 0 < len <= MAX_WAL_ENTRY_BYTES whose stored checksum equals the computed one")


MOS = [
    MO("O13.3/frame_acceptance", "WalReader::read_all: an entry is pushed only from a frame with 0 < len <= MAX_WAL_ENTRY_BYTES whose stored checksum equals the computed one — proved for all values (DECIDES)",
       lambda F: frame_acceptance(F), functions=[("persistence.rs", "read_all")]),
    MO("O13.1/reader", "recover: the tolerant reader is used only on the BestEffort arm; the strict reader is reachable on the Strict arm",
       allof(only_via(R, READ_ALL, Arm(r"^discr\(arg\(_\d+: (config::)?RecoveryMode\)\)$", {"1"}, name="recovery_mode == BestEffort")),
             lambda F: FnCheck(F, R).reachable(READ_STRICT, assume=[STRICT])),
       functions=[("hnsw_backend.rs", "recover_with_hnsw_params_and_mode")]),
    MO("O13.1/missing_segment", "recover (Strict): a WAL segment listed in the MANIFEST but missing on disk never leads to Ok",
       never(R, OK_SELF, frm=WAL_MISSING, assume=[STRICT]), functions=[("hnsw_backend.rs", "recover_with_hnsw_params_and_mode")]),
    MO("O13.1/snapshot_error", "recover (Strict): failure to load the snapshot (primary and fallbacks) never leads to Ok",
       never(R, OK_SELF, frm=SNAP_ERR, assume=[STRICT]), functions=[("hnsw_backend.rs", "recover_with_hnsw_params_and_mode")]),
    MO("O13.1/mismatch", "recover: snapshot dimension / metric mismatch and zero dimension never lead to Ok; strict reader error never leads to Ok",
       allof(never(R, OK_SELF, frm=Arm(r"^call <DistanceMetric as PartialEq>::ne$", {"otherwise"}, name="metric mismatch")),
             never(R, OK_SELF, frm=Arm(r"^Ne\(\(\{.*load_with_validation.*Snapshot\)\}\.\d+: usize\), arg\(_1: usize\)\)$", {"otherwise"}, name="dimension mismatch")),
             never(R, OK_SELF, frm=Arm(r"^discr\(try\(call <Result<Vec<WalEntry>, anyhow::Error> as anyhow::Context.*with_context", {"1"}, name="read_all_strict()? -> Err")),
             never(R, OK_SELF, frm=Arm(r"^discr\(try\(call WalReader::open", {"1"}, name="WalReader::open()? -> Err"))),
       functions=[("hnsw_backend.rs", "recover_with_hnsw_params_and_mode")]),
    MO("O13.2/no_silent_fallback", "recover (Strict): a snapshot recovered from an older fallback file never leads to Ok (segments between the two snapshots may have been compacted away)",
       never(R, OK_SELF, frm=FALLBACK, assume=[STRICT]), functions=[("hnsw_backend.rs", "recover_with_hnsw_params_and_mode"), ("persistence.rs", "load_with_validation")],
       role="strict-accepts-fallback-snapshot"),
]

RD = "persistence::WalReader::read_all"
CORRUPT_INC = stmt(r"^\(\(\*_1\)\.2: usize\) = Add\(copy \(\(\*_1\)\.2: usize\), const 1_usize\);$", name="corrupted_entries += 1")
READ_EXACT = call(r"as std::io::Read>::read_exact\(", name="read_exact")
PUSH = call(r"= Vec::<WalEntry>::push\(", name="entries.push")
EOF_ARMS = Arm(r"^call <std::io::ErrorKind as PartialEq>::eq$", {"otherwise"}, name="kind() == UnexpectedEof")
OK_ENTRIES = stmt(r"^_0 = Result::<Vec<WalEntry>, anyhow::Error>::Ok\(", name="return Ok(entries)")
MOS += [
    MO("O13.3/accounting", "WalReader::read_all: every way out of a frame that is not an end-of-file arm and does not push the entry increments corrupted_entries; entries are pushed only on the checksum-equal and deserialize-Ok arms",
       allof(follows(RD, READ_EXACT, anyev(r"corrupted_entries|^\(\(\*_1\)\.2: usize\) = Add|= Vec::<WalEntry>::push\(", name="corrupted_entries += 1 | entries.push"), exit="ok", cut=[EOF_ARMS], exit_ev=OK_ENTRIES),
             follows(RD, Arm(r"^Ne\(call core::num::<impl u32>::from_le_bytes, call crc32fast::hash\)$", {"otherwise"}, name="checksum mismatch"), CORRUPT_INC, exit="ok",
                     exit_ev=anyev(r"as std::io::Read>::read_exact\(|^_0 = ", name="next read | exit")),
             follows(RD, Arm(r"^discr\(call bincode::deserialize::<'_, WalEntry>\)$", {"1"}, name="deserialize -> Err"), CORRUPT_INC, exit="ok",
                     exit_ev=anyev(r"as std::io::Read>::read_exact\(|^_0 = ", name="next read | exit")),
             follows(RD, Arm(r"^Gt\(\{call core::num::<impl u32>::from_le_bytes\} as usize \(IntToInt\), const persistence::MAX_WAL_ENTRY_BYTES\)$", {"otherwise"}, name="size > max"), CORRUPT_INC, exit="ok", exit_ev=OK_ENTRIES),
             only_via(RD, PUSH, Arm(r"^Ne\(call core::num::<impl u32>::from_le_bytes, call crc32fast::hash\)$", {"0"}, name="checksum equal")),
             only_via(RD, PUSH, Arm(r"^discr\(call bincode::deserialize::<'_, WalEntry>\)$", {"0"}, name="deserialize -> Ok")),
             ),
       functions=[("persistence.rs", "read_all")]),
    MO("O13.3/strict", "WalReader::read_all_strict: Ok only when corrupted_entries == 0 and read_all succeeded",
       allof(only_via(RD + "_strict", OK_ENTRIES, Arm(r"^Gt\(\(\(\*\{arg\(_1: &mut WalReader\)\}\)\.2: usize\), const 0_usize\)$", {"0"}, name="corrupted_entries == 0")),
             only_via(RD + "_strict", OK_ENTRIES, Arm(r"^discr\(try\(call WalReader::read_all\)\)$", {"0"}, name="read_all()? -> Ok"))),
       functions=[("persistence.rs", "read_all_strict")]),
    MO("O13.3/midframe_eof", "WalReader::read_all: an end-of-file in the middle of a frame (payload or checksum read) is recorded, so that strict replay can refuse it in a segment that is not the newest",
       follows(RD, Arm(r"^call <std::io::ErrorKind as PartialEq>::eq$", {"otherwise"}, name="mid-frame UnexpectedEof (payload read)", nth=1),
               anyev(r"^\(\(\*_1\)\.\d+: (usize|bool)\) = ", name="reader records the torn frame"), exit="ok", exit_ev=OK_ENTRIES),
       functions=[("persistence.rs", "read_all")], role="midframe-eof-silent-in-nonfinal-segment"),
]


SL = "persistence::Snapshot::load"
SNAP_OK = stmt(r"^_0 = Result::<Snapshot, anyhow::Error>::Ok\(", name="return Ok(snapshot)")
def loader_decisions(F):
    """Snapshot::load / WalReader::open: Ok only for the right magic, an equal checksum and the right version — the whole
    accept decision, for all values of the stored and computed words (DECIDES)."""
    from vlib import mirdec as MD
    T = "\u27e8[^\u27e9]*"
    atoms = [("magic", r"^call core::num::<impl u32>::from_le_bytes$", T + "magic"), ("stored_crc", r"^call core::num::<impl u32>::from_le_bytes$", T + "(check|crc)"),
             ("computed_crc", r"^call crc32fast::hash$"), ("MAGIC", r"^const (persistence::)?SNAPSHOT_MAGIC$"), ("version", r" as Continue\)\.0: u32\)$"), ("VERSION", r"^const (persistence::)?SNAPSHOT_VERSION$")]
    out = MD.decides(F, SL, "entry", {"ok": SNAP_OK}, atoms, {"ok": ("=>", "(and (= magic MAGIC) (= stored_crc computed_crc) (= version VERSION))")},
                     what="Snapshot::load returns Ok only for the snapshot magic, a stored checksum equal to the computed one and the supported version")
    DES = call(r"= bincode::deserialize", name="bincode::deserialize*")
    out += MD.decides(F, SL, "entry", {"deserialize": DES}, atoms, {"deserialize": ("=>", "(and (= magic MAGIC) (= stored_crc computed_crc))")},
                      what="Snapshot::load deserialises payload bytes only after the magic and the checksum matched")
    atoms = [("magic", r"^call core::num::<impl u32>::from_le_bytes$"), ("MAGIC", r"^const (persistence::)?WAL_MAGIC$")]
    out += MD.decides(F, "persistence::WalReader::open", "entry", {"ok": stmt(r"^_0 = Result::<WalReader, anyhow::Error>::Ok\(", name="return Ok(reader)")}, atoms, {"ok": ("=>", "(= magic MAGIC)")},
                      what="WalReader::open returns a reader only for a file that starts with the WAL magic")
    return out


def manifest_keys(F):
    """The MANIFEST is JSON without a checksum, and two of its fields are optional: a damaged KEY must therefore fail the parse
    (serde's generated field visitor calls `Error::unknown_field`, i.e. `deny_unknown_fields`) — or the file must carry a checksum
    that Manifest::load verifies.  Otherwise one flipped bit in the key `latest_snapshot` silently removes the snapshot from
    strict recovery."""
    vis = None
    for name, fn in F.items():
        if "visit_str" not in name or not name.startswith("persistence::"):
            continue
        txt = " ".join(" ".join(b.stmts) + " " + (b.term or "") for b in fn.blocks.values() if not b.cleanup)
        if 'const "latest_snapshot"' in txt and 'const "wal_segments"' in txt:
            vis = (name, fn, txt)
    if vis is None:
        return [Result("inconclusive", "serde field visitor of persistence::Manifest not found in the MIR")]
    name, fn, txt = vis
    denies = "unknown_field" in txt
    ml = FnCheck(F, "persistence::Manifest::load")
    checksummed = ml.fn is not None and ml.count(call(r"= crc32fast::hash\(", name="crc32fast::hash")) > 0
    fcv = FnCheck(F, name)
    r = fcv.reachable(stmt(r"^_0 = ", name="field identified"))
    smp = {"fn": name, "kind": "NEVER", "B": "unknown MANIFEST key accepted", "unknown_field_call": denies, "manifest_checksummed": checksummed}
    if denies or checksummed:
        return [Result("holds", "a damaged MANIFEST key fails the parse (%s)" % ("unknown keys are rejected" if denies else "checksum verified"), queries=r.queries, seconds=r.seconds, sample=smp)]
    return [Result("violated", "the MANIFEST parser maps every unknown key to 'ignore' and the file has no checksum: a flipped bit in the key \"latest_snapshot\" (or \"latest_snapshot_wal_seq\") turns the optional field "
                   "into None and strict recovery proceeds without the snapshot", queries=r.queries, seconds=r.seconds, sample=smp)]


def seq_continuity(F):
    """Strict recovery can notice that entries are MISSING (a closed segment cut at a frame boundary leaves only intact frames)
    only if it checks that sequence numbers continue, or if closed segments record how many frames they hold.  Decided here: in
    the replay loop some decision on entry.seq_no leads to an error exit before the entry is applied or the next one fetched."""
    from vlib.mirflow import Graph, reach_query, origin as _o
    from vlib.mo import field_index as _fi
    fc = FnCheck(F, R)
    if fc.fn is None:
        return [fc.missing()]
    fn = fc.fn
    si = _fi("persistence.rs", "WalEntry", "seq_no")
    if si is None:
        return [Result("inconclusive", "WalEntry.seq_no not found")]
    SEQ = r"\(\(\{call <IntoIter<WalEntry> as Iterator>::next\} as Some\)\.0: persistence::WalEntry\)\}\.%d: u64\)" % si
    NEXT = call(r"= <IntoIter<WalEntry> as Iterator>::next\(", name="next entry")
    ERR = exit_event("err")
    APPLY = Ev(r"= discriminant\(", kind="stmt", also=lambda f, b, t: b.kind == "switch" and re.search(r": persistence::WalOp\)\)$", _o(f, b.switch_local or "")) is not None, name="match entry.op")
    g = Graph(fn, [NEXT, ERR, APPLY])
    avoid = set(g.ev_nodes[NEXT.name]) | set(g.ev_nodes[APPLY.name])
    found = []
    q = 0
    for idx in sorted(fn.blocks):
        b = fn.blocks[idx]
        if b.cleanup or b.kind != "switch" or not re.search(SEQ, _o(fn, b.switch_local or "")):
            continue
        for lab, t in b.succs:
            if t not in g.block_in:
                continue
            res, _p = reach_query(len(g.nodes), g.edges, [g.block_in[t]], g.ev_nodes[ERR.name], avoid)
            q += 1
            if res == "sat":
                found.append("bb%d arm %s (%s)" % (idx, lab, _o(fn, b.switch_local)[:80]))
    smp = {"fn": fc.name, "kind": "REACHABLE", "B": "error exit decided by entry.seq_no", "seq_decisions_leading_to_error": found[:4]}
    if found:
        return [Result("holds", "a decision on entry.seq_no can reject the log: " + found[0], queries=q, sample=smp)]
    return [Result("violated", "no decision on entry.seq_no leads to an error in the replay loop (and closed segments carry no frame count): entries missing from a non-final segment that was cut at a frame "
                   "boundary are not noticed and strict start-up succeeds without them", queries=q, sample=smp)]


def _cutoff(F):
    from props.C02 import replay_skip
    return replay_skip(F)


MOS += [
    MO("O13.7/seq_continuity", "recover (strict): missing entries are noticed — some decision on entry.seq_no in the replay loop leads to an error exit (sequence continuity), or closed segments record their frame count",
       seq_continuity, functions=[("hnsw_backend.rs", "recover_with_hnsw_params_and_mode")], role="clean-truncation-of-nonfinal-segment-undetected"),
    MO("O13.6/manifest_keys", "Manifest parse: an unknown (damaged) key is an error, or the MANIFEST is checksummed — so that an optional field cannot silently become None", manifest_keys,
       functions=[("persistence.rs", "Manifest (serde Deserialize)"), ("persistence.rs", "load")], role="manifest-unknown-key-ignored"),
    MO("O13.5/replay_cutoff", "recover: the replay cut-off is the loaded snapshot's own last_wal_seq / timestamp (nothing read from the unchecksummed MANIFEST): every entry newer than the snapshot that was actually loaded "
       "is applied — so a damaged MANIFEST value or a fallback to an older snapshot cannot silently drop acknowledged entries (same DECIDES obligation as C02 O2.1)", _cutoff,
       functions=[("hnsw_backend.rs", "recover_with_hnsw_params_and_mode")]),
    MO("O13.4/loader_decisions", "Snapshot::load: Ok => magic == SNAPSHOT_MAGIC and stored crc == crc32(payload) and version == SNAPSHOT_VERSION; payload deserialised only after magic and crc matched; "
       "WalReader::open: Ok => magic == WAL_MAGIC — for all values (DECIDES)", lambda F: loader_decisions(F), functions=[("persistence.rs", "load"), ("persistence.rs", "open")]),
    MO("O13.4/snapshot_load", "Snapshot::load: Ok only when the payload validates (validate_and_normalize succeeded); the checksum is computed before any byte of the payload is deserialised",
       allof(  # (magic / checksum / version comparisons are decided value-level by O13.4/loader_decisions)
             only_via(SL, SNAP_OK, Arm(r"^discr\(try\(call Snapshot::validate_and_normalize\)\)$", {"0"}, name="validate_and_normalize()? -> Ok")),
             precedes(SL, call(r"= crc32fast::hash\(", name="crc32fast::hash(payload)"), call(r"= bincode::deserialize", name="bincode::deserialize*"))),
       functions=[("persistence.rs", "load")]),
    MO("O13.8/fallback_order", "Snapshot::load_with_validation: fallback candidates are all snapshot files, newest first, scanned from just after the primary — or from the newest when the primary named by the MANIFEST does not exist",
       lambda F: fallback_order(F), functions=[("persistence.rs", "load_with_validation")], role="fallback-skips-newest-snapshot"),
    MO("O13.4/load_with_validation", "Snapshot::load_with_validation: every Ok comes from a successful Snapshot::load (primary or a fallback file); the fallback flag is true exactly on the fallback arm",
       allof(never("persistence::Snapshot::load_with_validation", stmt(r"^_0 = Result::<\(Snapshot, bool\), anyhow::Error>::Ok\(", name="return Ok((snapshot, flag))"),
                   cut=[Arm(r"^discr\(call Snapshot::load::<", {"0"}, name="Snapshot::load -> Ok")]),),
       functions=[("persistence.rs", "load_with_validation")]),
]


def fallback_order(F):
    """Snapshot::load_with_validation, fallback search: the candidates are every snapshot file of the directory, newest first
    (sort key Reverse(number)), the scan starts right after the primary's own position and — when the primary is not in the
    directory at all (a damaged name in the MANIFEST) — at the newest file (skip count = position + 1, else 0), and no candidate
    is filtered out before.  Recognised structurally; any other shape is left to the native scenario (see run())."""
    import vlib.mir as _M
    from vlib.mirflow import origin as _o
    f = "persistence::Snapshot::load_with_validation"
    fc = FnCheck(F, f)
    if fc.fn is None:
        return [fc.missing()]
    fn = fc.fn
    calls = [(b.idx, b) for b in fn.blocks.values() if not b.cleanup and b.kind == "call"]
    sort = [b for _i, b in calls if re.search(r"sort_by_key::<(std::cmp::)?Reverse<u64>", b.term or "")]
    skip = [b for _i, b in calls if re.search(r"IntoIter<\(u64, (std::path::)?PathBuf\)> as Iterator>::skip\(", b.term or "")]
    retain = [b for _i, b in calls if re.search(r"Vec::<\(u64, (std::path::)?PathBuf\)>::(retain|truncate|drain|pop|remove|swap_remove|dedup)", b.term or "")]
    loads = [b for _i, b in calls if re.search(r"= Snapshot::load::<&(std::path::)?PathBuf>\(", b.term or "")]
    smp = {"fn": fc.name, "kind": "PROVENANCE", "sort_by_key_reverse": len(sort), "skip": len(skip), "filters": [(_b.term or "")[:60] for _b in retain]}
    if not sort or len(skip) != 1 or retain or len(loads) != 1:
        return [Result("inconclusive", "fallback candidate selection is not in the recognised form (newest-first sort, no filtering, one skip(position+1 or 0)): %s" % smp, sample=smp)]
    a = _M._split_top(skip[0].args)
    o = _o(fn, a[1]) if len(a) > 1 else "?"
    ok = bool(re.search(r"^call Option::<usize>::unwrap_or$", o))
    # the unwrap_or default must be 0 and its operand a map over and_then(position)
    dflt = [b for _i, b in calls if re.search(r"Option::<usize>::unwrap_or\(", b.term or "")]
    ok = ok and len(dflt) == 1 and _M._split_top(dflt[0].args)[1].strip() == "const 0_usize"
    lo = _o(fn, _M._split_top(loads[0].args)[0])
    ok = ok and bool(re.search(r"Take<(std::iter::)?Skip<", lo))
    r = fc.reachable(call(r"= Snapshot::load::<&(std::path::)?PathBuf>\(", name="Snapshot::load(fallback)"))
    smp["skip_amount"] = o[:100]
    if not ok:
        return [Result("inconclusive", "fallback scan start is not `position of the primary + 1, else 0`: %s" % o[:120], queries=r.queries, seconds=r.seconds, sample=smp)]
    return [Result("holds", "candidates sorted newest-first, unfiltered; the scan skips up to and including the primary, or nothing when the primary is absent", queries=r.queries, seconds=r.seconds, sample=smp)]


def run(tier, seed, notes):
    from vlib import replay as RP
    obls = run_mir_obligations("C13", tier, MOS, notes)
    for o in obls:
        if o.oid == "O13.6/manifest_keys" and o.verdict == "violated":
            r = RP.run_scenario(["manifest-key-flip"], timeout=300, notes=notes)
            if r.get("reproduced") is not None:
                o.replay = r
                o.detail += " | native replay: " + str(r.get("output"))[:220]
        if o.oid == "O13.8/fallback_order" and o.verdict == "inconclusive" and ("recognised form" in (o.detail or "") or "scan start" in (o.detail or "")):
            # not the recognised selection: let the real code decide on a MANIFEST whose snapshot name is damaged into a
            # non-existent, lower number (the newest snapshot must still be found, or start-up refused)
            r = RP.run_scenario(["manifest-names-missing-snapshot"], timeout=300, notes=notes)
            if r.get("reproduced"):
                o.verdict = "violated"
                o.replay = r
                o.detail += " | native replay: " + str(r.get("output"))[:300]
            elif r.get("reproduced") is False:
                o.detail += " | native replay did not reproduce a stale start-up: " + str(r.get("output"))[:160]
    return obls
