"""C17 — unsafe index and SIMD code stays in bounds."""
import re
from vlib.mo import *
from vlib.runner import KH, run_kani_group, run_mir_obligations

ENGINES = "KM"
LEVEL = "other"
EXPLANATION = ("Kani/CBMC memory-safety checks (every pointer dereference, pointer arithmetic, slice index and get_unchecked precondition CBMC emits) over the real x86 SIMD kernels with a symbolic length "
               "covering the unrolled loop, the single-chunk loop and every tail length, on exact-size heap inputs; and over PackedLevel0's unchecked accessors / the visited bitset with arbitrary record words.  The accessors' preconditions at their call sites in FlatGraph's search code "
               "(index < neighbour count, id < node count) are MIR path obligations (ONLY_VIA the guarding arm) decided by z3.")
TRUSTED_BASE = ["Kani/CBMC pointer model", "rustc MIR construction (engine M)", "stubs: FMA and AVX-512 arithmetic intrinsics return their accumulator (values are irrelevant to bounds); loads/stores are the real core::arch code"]
NOT_COVERED = ["use-after-free across threads", "graphs larger than three nodes / FlatGraph search loops as executions (their call-site guards are decided structurally by O17.4)", "the graph construction path", "NEON kernels", "release-only paths behind debug_assert",
               "lengths above 4*W+W+3 (the loops are periodic in W beyond that; stated, not proven)"]
FS = [("simd.rs", r"dot_f32_sse2"), ("simd.rs", r"dot_f32_avx2"), ("simd.rs", r"dot_f32_avx512")]
KERNELS = [("dot", "binary"), ("sumsq", "unary"), ("l2", "binary"), ("dotnorms", "triple")]
ISAS = [("sse2", 4), ("avx2", 8), ("avx512", 16)]
HARNESSES = []
for isa, W in ISAS:
    for k, _shape in KERNELS:
        small, big = 2 * W + 3, 4 * W + W + 3
        HARNESSES.append(KH("O17.1/%s_%s" % (k, isa), "c17_o1_%s_%s" % (k, isa), "%s kernel (%s): no out-of-bounds access for any length 1..%d" % (k, isa, small), src="simd.rs",
                            functions=[("simd.rs", r"\w*%s\w*" % isa)],
                            bounds="len symbolic in 1..%d (single-chunk loop and every tail length); each input slice ends exactly at the end of its heap object" % small,
                            tier=("quick" if k in ("dot", "l2") else "thorough"), timeout=900, replay="solver-only"))
        HARNESSES.append(KH("O17.1/%s_%s_full" % (k, isa), "c17_o1_%s_%s_full" % (k, isa), "%s kernel (%s): no out-of-bounds access for any length 1..%d (4x-unrolled loop included)" % (k, isa, big), src="simd.rs",
                            functions=[("simd.rs", r"\w*%s\w*" % isa)], bounds="len symbolic in 1..%d" % big, tier="thorough", timeout=3000, replay="solver-only"))
# The four AVX-512 *_full rows (lengths up to 83 through the 4x-unrolled loop) run out of memory at the 14 GB per-process cap
# even when they are the only job on the machine (two attempts); they are not part of any tier.  The AVX-512 kernels are
# covered for lengths 1..35 (single-chunk loop + every tail) by the plain rows; the unrolled loop by the SSE2/AVX2 *_full rows.
HARNESSES = [h for h in HARNESSES if not h.oid.endswith("avx512_full")]
FA = [("ann_backend.rs", "count_unchecked"), ("ann_backend.rs", "neighbor_unchecked"), ("ann_backend.rs", "vector_at_unchecked"), ("ann_backend.rs", "record_ptr"), ("ann_backend.rs", "set_neighbors"), ("ann_backend.rs", "push_node")]
HARNESSES += [
    KH("O17.2/unchecked", "c17_o2_packed_level0_unchecked", "PackedLevel0 unchecked accessors stay inside `data` and agree with the checked ones, for arbitrary record words", src="ann_backend.rs", functions=FA,
       bounds="cap,dim in 1..3; 2 nodes; all 32 data words arbitrary", timeout=900, replay="solver-only"),
    KH("O17.2/push_node", "c17_o2_packed_level0_push_node", "PackedLevel0::push_node keeps data.len() == len()*record_words and stores the vector bits", src="ann_backend.rs", functions=FA,
       bounds="cap 2, dim 3 concrete; two pushes of an arbitrary vector", timeout=900),
    KH("O17.2/set_neighbors", "c17_o2_packed_level0_set_neighbors", "PackedLevel0::set_neighbors preserves the layout invariant, truncates to cap, ignores out-of-range ids", src="ann_backend.rs", functions=FA,
       bounds="cap,dim in 1..3; 2 nodes; up to 5 arbitrary neighbour ids; arbitrary target id", timeout=900),
    KH("O17.3/visited", "c17_o3_visited_bitset", "FlatSearchScratch::mark_if_unvisited_unchecked in bounds for every id < node_count after prepare()", src="ann_backend.rs",
       functions=[("ann_backend.rs", "mark_if_unvisited_unchecked"), ("ann_backend.rs", "prepare")], bounds="node_count in 1..130", timeout=900, replay="solver-only"),
]
MODS = {"simd.rs": "simd_proofs.rs", "ann_backend.rs": "ann_backend_proofs.rs"}


def unchecked_call_guards(F):
    """Caller-side contracts of the unchecked accessors inside FlatGraph's search code (the accessors themselves are Kani
    obligations O17.2 / O17.3 under exactly these preconditions):
      * neighbor_unchecked(d, i): i is an item of the range 0..count_unchecked(..) — or, in the prefetch look-ahead, the call
        is reached only on the true arm of `i < neighbor_count` for exactly the index expression passed (ONLY_VIA), and every
        caller passes a count_unchecked(..) result as neighbor_count;
      * mark_if_unvisited_unchecked(n) / distance_to_unchecked(.., n): reached only on the false arm of
        `n as usize >= self.len()` for the same n (ONLY_VIA)."""
    import vlib.mir as _M
    from vlib.mirflow import origin as _o
    out = []
    sites = 0
    RANGE_ITEM = r"^\(\(\{call <(std::ops::)?Range<usize> as Iterator>::next\} as Some\)\.0: usize\)$"
    for name, fn in sorted(F.items()):
        if not name.startswith("ann_backend::FlatGraph::") or "verif_proofs" in name or "::tests::" in name:
            continue
        fc = None
        for idx in sorted(fn.blocks):
            b = fn.blocks[idx]
            if b.cleanup or b.kind != "call":
                continue
            t = b.term or ""
            m = re.search(r"= (?:ann_backend::)?(PackedLevel0::neighbor_unchecked|FlatSearchScratch::mark_if_unvisited_unchecked|FlatGraph::distance_to_unchecked)\(", t)
            if not m:
                continue
            sites += 1
            fc = fc or FnCheck(F, name)
            a = _M._split_top(b.args)
            here = Ev(re.escape(t.split(" -> ")[0]), kind="call", also=(lambda f, bb, _t, i=idx: bb.idx == i), name="%s at bb%d" % (m.group(1).split("::")[-1], idx))
            if m.group(1).endswith("neighbor_unchecked"):
                io = _o(fn, a[2])
                if re.search(RANGE_ITEM, io):
                    # the range this index is drawn from ends at a count_unchecked result
                    ends = [_o(fn, mm.group(1)) for bb in fn.blocks.values() if not bb.cleanup for st in bb.stmts
                            for mm in [re.search(r"Range::<usize> \{ start: const 0_usize, end: (?:copy |move )?(_\d+) \}", st)] if mm]
                    if len(ends) == 1 and re.search(r"^call PackedLevel0::count_unchecked$", ends[0]):
                        out.append(Result("holds", "%s bb%d: index drawn from 0..count_unchecked(..)" % (name.split("::", 2)[-1], idx), sample={"fn": name, "kind": "PROVENANCE", "index": io[:80]}))
                    else:
                        out.append(Result("violated", "%s bb%d: neighbor_unchecked index comes from a range that does not end at count_unchecked(..): %s" % (name, idx, ends), sample={"fn": name, "kind": "PROVENANCE"}))
                    continue
                # guarded form: Lt(<same index expression>, <a usize argument>)
                # `i < n` may be written i < n (true arm), i >= n (false arm), n > i (true arm) or n <= i (false arm)
                guards, garm = [], None
                for bb in sorted((x for x in fn.blocks.values() if not x.cleanup and x.kind == "switch"), key=lambda x: x.idx):
                    so = _o(fn, bb.switch_local)
                    for rx, arm_ in ((r"^Lt\(%s, arg\(_\d+: usize\)\)$", "otherwise"), (r"^Ge\(%s, arg\(_\d+: usize\)\)$", "0")):
                        if re.search(rx % re.escape(io), so):
                            guards.append(bb)
                            garm = garm or arm_
                    for rx, arm_ in ((r"^Gt\(arg\(_\d+: usize\), %s\)$", "otherwise"), (r"^Le\(arg\(_\d+: usize\), %s\)$", "0")):
                        if re.search(rx % re.escape(io), so):
                            guards.append(bb)
                            garm = garm or arm_
                if not guards:
                    out.append(Result("violated", "%s bb%d: neighbor_unchecked(dense_id, %s) is not guarded by `%s < neighbor_count`: slot indices at or past the record's neighbour count read beyond the node's "
                                      "neighbour list (for the last node of an unpadded layout, beyond the allocation)" % (name.split("::", 2)[-1], idx, io[:60], io[:60]), sample={"fn": name, "kind": "ONLY_VIA", "index": io[:80]}))
                    continue
                go = _o(fn, guards[0].switch_local)
                out.append(fc.only_via(here, Arm("^" + re.escape(go) + "$", {garm}, name="%s is %s" % (go[:70], "true" if garm == "otherwise" else "false"))))
                cm = re.search(r"arg\((_\d+): usize\)", go.replace(io, "", 1))  # the bound, not the index expression
                pos = int(cm.group(1)[1:]) - 1 if cm else None
                # every caller passes count_unchecked(..) in that position
                short = name.split("::")[-1]
                for cname, cf in F.items():
                    for cb in cf.blocks.values():
                        if not cb.cleanup and cb.kind == "call" and re.search(r"= (?:ann_backend::)?FlatGraph::%s\(" % re.escape(short), cb.term or ""):
                            ca = _M._split_top(cb.args)
                            co = _o(cf, ca[pos]) if pos is not None and pos < len(ca) else "?"
                            ok = bool(re.search(r"^call PackedLevel0::count_unchecked$", co))
                            out.append(Result("holds" if ok else "violated", "%s bb%d passes `%s` as the neighbour count of %s" % (cname.split("::", 2)[-1], cb.idx, co[:60], short), sample={"fn": cname, "kind": "PROVENANCE"}))
                continue
            n = _o(fn, a[-1])
            gre = "^Ge\\(\\{?%s\\}? as usize \\(IntToInt\\), call FlatGraph::len\\)$" % re.escape(re.escape(n))
            gre = r"^Ge\(\{?" + re.escape(n) + r"\}? as usize \(IntToInt\), call FlatGraph::len\)$"
            guards = [bb for bb in fn.blocks.values() if not bb.cleanup and bb.kind == "switch" and re.search(gre, _o(fn, bb.switch_local))]
            if not guards:
                out.append(Result("violated", "%s bb%d: %s on `%s` without a preceding `id as usize >= self.len()` test on the same id" % (name.split("::", 2)[-1], idx, m.group(1).split("::")[-1], n[:60]), sample={"fn": name, "kind": "ONLY_VIA"}))
                continue
            out.append(fc.only_via(here, Arm(gre, {"0"}, name="id < node count")))
    if sites < 6:
        return [Result("inconclusive", "expected at least 6 unchecked call sites in FlatGraph's search code, found %d" % sites)]
    return out


MOS = [
    MO("O17.4/unchecked_call_guards", "FlatGraph search code: every neighbor_unchecked index is drawn from 0..count_unchecked(..) or guarded by `index < neighbor_count` (ONLY_VIA, with count_unchecked passed by every caller); "
       "every mark_if_unvisited_unchecked / distance_to_unchecked id is guarded by `id as usize >= len()` (ONLY_VIA)", unchecked_call_guards,
       functions=[("ann_backend.rs", n) for n in ("prefetch_level0_neighbor_lookahead", "search_layer0_exact", "search_at_layer_into", "greedy_descent_layer")]),
]


def run(tier, seed, notes):
    obls = run_mir_obligations("C17", tier, MOS, notes)
    obls += run_kani_group("C17", tier, "lib", MODS, HARNESSES, jobs=8, notes=notes)
    return obls
