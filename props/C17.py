"""C17 — unsafe index and SIMD code stays in bounds."""
from vlib.runner import KH, run_kani_group

ENGINES = "K"
LEVEL = "other"
EXPLANATION = ("Kani/CBMC memory-safety checks (every pointer dereference, pointer arithmetic, slice index and get_unchecked precondition CBMC emits) over the real x86 SIMD kernels with a symbolic length "
               "covering the unrolled loop, the single-chunk loop and every tail length, on exact-size heap inputs; and over PackedLevel0's unchecked accessors / the visited bitset with arbitrary record words.")
TRUSTED_BASE = ["Kani/CBMC pointer model", "stubs: FMA and AVX-512 arithmetic intrinsics return their accumulator (values are irrelevant to bounds); loads/stores are the real core::arch code"]
NOT_COVERED = ["use-after-free across threads", "graphs larger than three nodes / FlatGraph search loops", "the graph construction path", "NEON kernels", "release-only paths behind debug_assert",
               "lengths above 4*W+W+3 (the loops are periodic in W beyond that; stated, not proven)"]
FS = [("simd.rs", r"dot_f32_sse2"), ("simd.rs", r"dot_f32_avx2"), ("simd.rs", r"dot_f32_avx512")]
KERNELS = [("dot", "binary"), ("sumsq", "unary"), ("l2", "binary"), ("dotnorms", "triple")]
ISAS = [("sse2", 4), ("avx2", 8), ("avx512", 16)]
HARNESSES = []
for isa, W in ISAS:
    for k, _shape in KERNELS:
        small, big = 2 * W + 3, 4 * W + W + 3
        HARNESSES.append(KH("O17.1/%s_%s" % (k, isa), "c17_o1_%s_%s" % (k, isa), "%s kernel (%s): no out-of-bounds access for any length 1..%d" % (k, isa, small), src="simd.rs",
                            functions=[("simd.rs", r"\w*%s\w*" % isa)],
                            bounds="len symbolic in 1..%d (single-chunk loop and every tail length); each input slice ends exactly at the end of its heap object" % small,
                            tier=("quick" if k in ("dot", "l2") else "thorough"), timeout=900, replay="solver-only"))
        HARNESSES.append(KH("O17.1/%s_%s_full" % (k, isa), "c17_o1_%s_%s_full" % (k, isa), "%s kernel (%s): no out-of-bounds access for any length 1..%d (4x-unrolled loop included)" % (k, isa, big), src="simd.rs",
                            functions=[("simd.rs", r"\w*%s\w*" % isa)], bounds="len symbolic in 1..%d" % big, tier="thorough", timeout=3000, replay="solver-only"))
# The four AVX-512 *_full rows (lengths up to 83 through the 4x-unrolled loop) run out of memory at the 14 GB per-process cap
# even when they are the only job on the machine (two attempts); they are not part of any tier.  The AVX-512 kernels are
# covered for lengths 1..35 (single-chunk loop + every tail) by the plain rows; the unrolled loop by the SSE2/AVX2 *_full rows.
HARNESSES = [h for h in HARNESSES if not h.oid.endswith("avx512_full")]
FA = [("ann_backend.rs", "count_unchecked"), ("ann_backend.rs", "neighbor_unchecked"), ("ann_backend.rs", "vector_at_unchecked"), ("ann_backend.rs", "record_ptr"), ("ann_backend.rs", "set_neighbors"), ("ann_backend.rs", "push_node")]
HARNESSES += [
    KH("O17.2/unchecked", "c17_o2_packed_level0_unchecked", "PackedLevel0 unchecked accessors stay inside `data` and agree with the checked ones, for arbitrary record words", src="ann_backend.rs", functions=FA,
       bounds="cap,dim in 1..3; 2 nodes; all 32 data words arbitrary", timeout=900, replay="solver-only"),
    KH("O17.2/push_node", "c17_o2_packed_level0_push_node", "PackedLevel0::push_node keeps data.len() == len()*record_words and stores the vector bits", src="ann_backend.rs", functions=FA,
       bounds="cap 2, dim 3 concrete; two pushes of an arbitrary vector", timeout=900),
    KH("O17.2/set_neighbors", "c17_o2_packed_level0_set_neighbors", "PackedLevel0::set_neighbors preserves the layout invariant, truncates to cap, ignores out-of-range ids", src="ann_backend.rs", functions=FA,
       bounds="cap,dim in 1..3; 2 nodes; up to 5 arbitrary neighbour ids; arbitrary target id", timeout=900),
    KH("O17.3/visited", "c17_o3_visited_bitset", "FlatSearchScratch::mark_if_unvisited_unchecked in bounds for every id < node_count after prepare()", src="ann_backend.rs",
       functions=[("ann_backend.rs", "mark_if_unvisited_unchecked"), ("ann_backend.rs", "prepare")], bounds="node_count in 1..130", timeout=900, replay="solver-only"),
]
MODS = {"simd.rs": "simd_proofs.rs", "ann_backend.rs": "ann_backend_proofs.rs"}


def run(tier, seed, notes):
    return run_kani_group("C17", tier, "lib", MODS, HARNESSES, jobs=8, notes=notes)
