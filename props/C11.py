"""C11 — metadata filters select exactly the matching documents."""
import re
import vlib.mir as _M

from vlib.mo import *
from vlib.runner import KH, run_kani_group, run_mir_obligations

LEVEL = "other"
EXPLANATION = ("Kani: OrderedF64::from_f64 is an order embedding (all f64 pairs).  mirflow/z3: operator<->interval table of the range compilers, "
               "numeric/lexicographic split, alive-set intersection, and index maintenance calls on every write path.")
TRUSTED_BASE = ["Kani/CBMC", "rustc MIR", "z3", "contract of BTreeMap::range and RoaringTreemap set operators (std / roaring crate)"]
NOT_COVERED = ["the decimal parser on value classes (std)", "String ordering vs the reference's comparison on &String (same Ord)", "histories",
               "bitmap_for_range_numeric/compile_filter_to_bitmap value-level equivalence with matches() (std HashMap/BTreeMap/roaring are beyond CBMC here)"]

HARNESSES = [
    KH("O11.1", "c11_o1_ordered_f64_embedding", "OrderedF64::from_f64: a<b <=> key(a)<key(b); a==b <=> key(a)==key(b) (with +-0 identified)",
       src="hnsw_backend.rs", functions=[("hnsw_backend.rs", "from_f64")], bounds="all pairs of non-NaN f64 (2^128 inputs)"),
]

MI = "hnsw_backend::MetadataInvertedIndex::"
BOUND_SW = r"^discr\(\(\*\{arg\(_3: &(proto::)?range_match::Bound\)\}\)\)$"
# prost enum order: Gte=0, Lte=1, Gt=2, Lt=3
TABLE = {"0": ("Included", "Unbounded"), "1": ("Unbounded", "Included"), "2": ("Excluded", "Unbounded"), "3": ("Unbounded", "Excluded")}
NAMES = {"0": "Gte", "1": "Lte", "2": "Gt", "3": "Lt"}


def range_shape(lower, upper, numeric):
    """Event: a BTreeMap::range call whose argument tuple is (lower, upper), built in the same block,
    with the bounded side keyed by OrderedF64::from_f64(bound_num) (numeric) / a clone of the bound string."""
    def also(fn, b, _txt):
        m = re.search(r"\(copy _\d+, move (_\d+)\)$", "(" + b.args + ")")
        if not m:
            return False
        tup = m.group(1)
        comps = None
        kinds = {}
        # statements of this block and of its straight-line predecessors (a clone() call splits the block)
        preds = {}
        for bb in fn.blocks.values():
            if not bb.cleanup:
                for _l, t in bb.succs:
                    preds.setdefault(t, []).append(bb)
        chain = [b]
        cur = b
        for _ in range(3):
            ps = preds.get(cur.idx, [])
            if len(ps) != 1 or len(ps[0].succs) != 1:
                break
            cur = ps[0]
            chain.append(cur)
        stmts = [st for bb in reversed(chain) for st in bb.stmts]
        for s in stmts:
            mm = re.match(r"^(_\d+) = std::ops::Bound::<[^>]*>::(Included|Excluded)\((?:copy|move) (_\d+)\);$", s)
            if mm:
                kinds[mm.group(1)] = (mm.group(2), mm.group(3))
            mm = re.match(r"^(_\d+) = std::ops::Bound::<[^>]*>::Unbounded;$", s)
            if mm:
                kinds[mm.group(1)] = ("Unbounded", None)
            mm = re.match(r"^%s = \(move (_\d+), move (_\d+)\);$" % tup, s)
            if mm:
                comps = (mm.group(1), mm.group(2))
        if not comps or comps[0] not in kinds or comps[1] not in kinds:
            return False
        if (kinds[comps[0]][0], kinds[comps[1]][0]) != (lower, upper):
            return False
        key_local = kinds[comps[0]][1] or kinds[comps[1]][1]
        o = origin(fn, key_local)
        if numeric:
            return bool(re.search(r"call (hnsw_backend::)?OrderedF64::from_f64", o))
        return "Clone>::clone" in o
    return Ev(r"BTreeMap::<.*>::range::<", kind="call", also=also, name="range((%s, %s))" % (lower, upper))


def interval_table(fn, numeric):
    checks = []
    for v, (lo, up) in TABLE.items():
        checks.append(only_via(fn, range_shape(lo, up, numeric), Arm(BOUND_SW, {v}, name="bound is " + NAMES[v])))
    # exactly four range calls, one per operator: any range call is one of the four shapes
    def four(F):
        fc = FnCheck(F, fn)
        if fc.fn is None:
            return fc.missing()
        total = fc.count(Ev(r"BTreeMap::<.*>::range::<", kind="call"))
        shaped = sum(fc.count(range_shape(lo, up, numeric)) for (lo, up) in TABLE.values())
        if total == 4 and shaped == 4:
            return Result("holds", "4 range calls, each with a table shape", sample={"fn": fn, "kind": "COUNT", "range_calls": total})
        return Result("violated" if total != shaped else "inconclusive", "range calls=%d, matching the operator table=%d" % (total, shaped))
    checks.append(four)
    return allof(*checks)


RANGE_CALL = call(r"BTreeMap::<.*>::range::<", name="BTreeMap::range")
def numeric_parse_mirror(F):
    """parse_indexable_numeric must accept exactly what the reference matcher's numeric test accepts: `str::parse::<f64>()`
    of the unmodified value, and nothing decided before or after it (the function's own comment: 'must mirror
    metadata_filter::matches_range')."""
    from vlib import mirdec as MD
    from vlib.mirflow import origin as _o
    import vlib.mir as _M
    f = "hnsw_backend::parse_indexable_numeric"
    OKC = call(r"= Result::<f64, (core::num::dec2flt::|std::num::)?ParseFloatError>::ok\(", name="parse::<f64>().ok()")
    out = MD.decides(F, f, "entry", {"answer": OKC}, [], {"answer": "true"},
                     what="parse_indexable_numeric answers with value.parse::<f64>().ok() on every path (no value is classified before the parse)")
    fc = FnCheck(F, f)
    if fc.fn is not None:
        fn = fc.fn
        for b in fn.blocks.values():
            if not b.cleanup and OKC.match_block(fn, b):
                src = _o(fn, b.args)
                ok = bool(re.match(r"^call core::str::<impl str>::parse::<f64>$", src))
                out.append(Result("holds" if ok else "violated", "answer = str::parse::<f64>(value).ok()" if ok else "parse_indexable_numeric answers with `%s`, expected str::parse::<f64>(value).ok()" % src[:120],
                                  sample={"fn": fc.name, "kind": "PROVENANCE", "value": src[:120]}))
            if not b.cleanup and b.kind == "call" and re.search(r"impl str>::parse::<f64>$", (b.callee or "")):
                a = _o(fn, b.args)
                ok = bool(re.match(r"^arg\(_1: &str\)$", a))
                out.append(Result("holds" if ok else "violated", "the parsed text is the value itself" if ok else "parse_indexable_numeric parses `%s` instead of the value itself (the matcher parses the raw value)" % a[:100],
                                  sample={"fn": fc.name, "kind": "PROVENANCE", "parsed": a[:100]}))
        # no other way to produce the answer
        others = [s_ for b in fn.blocks.values() if not b.cleanup for s_ in b.stmts if s_.startswith("_0 = ")]
        if others:
            out.append(Result("violated", "parse_indexable_numeric also answers without parsing: `%s`" % others[0][:100], sample={"fn": fc.name, "kind": "COUNT", "direct_answers": len(others)}))
    # the reference matcher takes its numeric branch iff both texts parse
    m = "metadata_filter::matches_range"
    fm = FnCheck(F, m)
    if fm.fn is not None:
        n = fm.count(call(r"= core::str::<impl str>::parse::<f64>\(", name="parse::<f64>"))
        out.append(Result("holds" if n == 2 else "violated", "matches_range parses value and bound with str::parse::<f64>" if n == 2 else "matches_range makes %d parse::<f64> calls, expected 2 (value and bound)" % n,
                          sample={"fn": fm.name, "kind": "COUNT", "parse_calls": n}))
    return out


MOS = [
    MO("O11.6/numeric_parse_mirror", "parse_indexable_numeric == str::parse::<f64>(value).ok() on every path (what the reference matcher uses to decide 'numeric'), and nothing else classifies a value",
       numeric_parse_mirror, functions=[("hnsw_backend.rs", "parse_indexable_numeric"), ("metadata_filter.rs", "matches_range")]),
    MO("O11.5/numeric", "bitmap_for_range_numeric: Gte->[k,inf) Lte->(-inf,k] Gt->(k,inf) Lt->(-inf,k) with k = OrderedF64::from_f64(bound); NaN bound returns before any range call",
       allof(interval_table(MI + "bitmap_for_range_numeric", True),
             only_via(MI + "bitmap_for_range_numeric", RANGE_CALL, Arm(r"^call core::f64::<impl f64>::is_nan$", {"0"}, name="bound is not NaN"))),
       functions=[("hnsw_backend.rs", "bitmap_for_range_numeric")]),
    MO("O11.5/lex", "bitmap_for_range_lex: same operator<->interval table over the bound string", interval_table(MI + "bitmap_for_range_lex", False),
       functions=[("hnsw_backend.rs", "bitmap_for_range_lex")]),
    MO("O11.5/compile_range", "compile_range_filter_to_bitmap: numeric branch only when the bound parses; lexicographic result computed first; numeric docs removed before the numeric result is OR-ed in",
       allof(only_via("hnsw_backend::compile_range_filter_to_bitmap", call(r"= MetadataInvertedIndex::bitmap_for_range_numeric\(", name="bitmap_for_range_numeric"),
                      Arm(r"^discr\(call (hnsw_backend::)?parse_indexable_numeric\)$", {"1"}, name="bound parses as f64")),
             precedes("hnsw_backend::compile_range_filter_to_bitmap", call(r"= MetadataInvertedIndex::bitmap_for_range_lex\(", name="bitmap_for_range_lex"),
                      call(r"= MetadataInvertedIndex::bitmap_for_range_numeric\(", name="bitmap_for_range_numeric")),
             follows("hnsw_backend::compile_range_filter_to_bitmap", call(r"= MetadataInvertedIndex::bitmap_for_range_numeric\(", name="bitmap_for_range_numeric"),
                     call(r"as BitOrAssign>::bitor_assign\(", name="out |= numeric"), exit="any"),
             only_via("hnsw_backend::compile_range_filter_to_bitmap", call(r"as BitOrAssign>::bitor_assign\(", name="out |= numeric"),
                      Arm(r"^discr\(call HashMap::<String, RoaringTreemap>::get::<String>\)$", {"0", "1"}, name="numeric_docs lookup done")),
             never("hnsw_backend::compile_range_filter_to_bitmap", call(r"as BitOrAssign>::bitor_assign\(", name="out |= numeric"),
                   frm=call(r"= HashMap::<String, RoaringTreemap>::get::<String>\(", name="numeric_docs_by_key.get"),
                   cut=[Arm(r"^discr\(call HashMap::<String, RoaringTreemap>::get::<String>\)$", {"0"}, name="get -> None")],
                   assume=[]) if False else
             follows("hnsw_backend::compile_range_filter_to_bitmap", call(r"= HashMap::<String, RoaringTreemap>::get::<String>\(", name="numeric_docs_by_key.get"),
                     call(r"as SubAssign<&RoaringTreemap>>::sub_assign\(", name="out -= numeric_docs"), exit="any",
                     assume=[Arm(r"^discr\(call HashMap::<String, RoaringTreemap>::get::<String>\)$", {"1"}, name="get -> Some")]),
             ),
       functions=[("hnsw_backend.rs", "compile_range_filter_to_bitmap")]),
    MO("O11.5/alive", "ids_for_metadata_filter: the compiled bitmap is intersected with the alive set before ids are collected",
       allof(precedes("hnsw_backend::HnswBackend::ids_for_metadata_filter", call(r"as BitAndAssign>::bitand_assign\(", name="bitmap &= alive"),
                      call(r"RoaringTreemap>::iter\(", name="bitmap.iter()")),
             only_via("hnsw_backend::HnswBackend::ids_for_metadata_filter", call(r"= HnswBackend::scan::", name="fallback scan"),
                      Arm(r"^discr\(call (hnsw_backend::)?compile_filter_to_bitmap\)$", {"0"}, name="compile -> None"))),
       functions=[("hnsw_backend.rs", "ids_for_metadata_filter")]),
    MO("O11.4/parse", "index side and reference side parse numbers with the same function (str::parse::<f64>)",
       allof(lambda F: FnCheck(F, "hnsw_backend::parse_indexable_numeric").reachable(call(r"core::str::<impl str>::parse::<f64>\(", name="str::parse::<f64>")),
             lambda F: FnCheck(F, "metadata_filter::matches_range").reachable(call(r"core::str::<impl str>::parse::<f64>\(", name="str::parse::<f64>"))),
       functions=[("hnsw_backend.rs", "parse_indexable_numeric"), ("metadata_filter.rs", "matches_range")]),
]

H = "hnsw_backend::HnswBackend::"
INS_DOC = call(r"= MetadataInvertedIndex::insert_doc\(", name="meta_index.insert_doc")
REM_DOC = call(r"= MetadataInvertedIndex::remove_doc\(", name="meta_index.remove_doc")
REP_DOC = call(r"= MetadataInvertedIndex::replace_doc\(", name="meta_index.replace_doc")
REBUILD = call(r"= MetadataInvertedIndex::rebuild_from\(", name="MetadataInvertedIndex::rebuild_from")
MOS += [
    MO("O11.4/maintain", "inverted index maintained on every write path: insert -> insert_doc (+remove_doc of the overwritten record), update_metadata -> replace_doc, delete/batch_delete -> remove_doc, compaction/recovery -> rebuild_from",
       allof(follows(H + "insert", call(r"= Vec::<HashMap<String, String>>::push\(", name="store.metadata.push"), INS_DOC, exit="ok"),
             only_via(H + "insert", REM_DOC, Arm(r"^discr\(\(\{\(copy _\d+, move _\d+\)\}\.0: Option<usize>\)\)$", {"1"}, name="overwrite (old_internal_id is Some)")),
             follows(H + "update_metadata", DOCSTORE_WRITE, REP_DOC, exit="ok"),
             follows(H + "delete", DOCSTORE_WRITE, REM_DOC, exit="ok"),
             lambda F: FnCheck(F, H + "batch_delete").reachable(REM_DOC),
             follows(H + "compact_tombstones", call(r"= HashMap::<u64, usize>::clear\(", name="store.external_to_internal.clear"), REBUILD, exit="ok"),
             lambda F: FnCheck(F, H + "recover_with_hnsw_params_and_mode").reachable(REBUILD),
             ),
       functions=[("hnsw_backend.rs", "insert"), ("hnsw_backend.rs", "update_metadata"), ("hnsw_backend.rs", "delete"), ("hnsw_backend.rs", "batch_delete"), ("hnsw_backend.rs", "compact_tombstones")]),
]


# ---- index symmetry: what insert_doc adds under a value class, remove_doc removes under the same class
PARSE = r"^discr\(call (hnsw_backend::)?parse_indexable_numeric\)$"
ISNAN = r"^call core::f64::<impl f64>::is_nan$"
GUARDS = {
    "numeric NaN": [Arm(PARSE, {"1"}, name="value parses as f64"), Arm(ISNAN, {"otherwise"}, name="value is NaN")],
    "numeric non-NaN": [Arm(PARSE, {"1"}, name="value parses as f64"), Arm(ISNAN, {"0"}, name="value is not NaN")],
    "non-numeric": [Arm(PARSE, {"0"}, name="value does not parse")],
}


def _self_field(fn, b, _txt):
    from vlib.mirflow import origin as _o
    import vlib.mir as _M
    a0 = _M._split_top(b.args)[0] if b.args else ""
    return "arg(_1: &mut" in _o(fn, a0)


STRUCTS = {
    "numeric_docs_by_key": (Ev(r"= HashMap::<String, RoaringTreemap>::entry\(", kind="call", also=_self_field, name="numeric_docs_by_key.entry(k)"),
                            Ev(r"= HashMap::<String, RoaringTreemap>::get_mut::<String>\(", kind="call", also=_self_field, name="numeric_docs_by_key.get_mut(k)")),
    "by_key_numeric": (Ev(r"= HashMap::<String, BTreeMap<(hnsw_backend::)?OrderedF64, RoaringTreemap>>::entry\(", kind="call", name="by_key_numeric.entry(k)"),
                       Ev(r"= HashMap::<String, BTreeMap<(hnsw_backend::)?OrderedF64, RoaringTreemap>>::get_mut::<String>\(", kind="call", name="by_key_numeric.get_mut(k)")),
    "by_key_lex": (Ev(r"= HashMap::<String, BTreeMap<String, RoaringTreemap>>::entry\(", kind="call", name="by_key_lex.entry(k)"),
                   Ev(r"= HashMap::<String, BTreeMap<String, RoaringTreemap>>::get_mut::<String>\(", kind="call", name="by_key_lex.get_mut(k)")),
    "by_key_value": (Ev(r"= HashMap::<String, HashMap<String, RoaringTreemap>>::entry\(", kind="call", name="by_key_value.entry(k)"),
                     Ev(r"= HashMap::<String, HashMap<String, RoaringTreemap>>::get_mut::<String>\(", kind="call", name="by_key_value.get_mut(k)")),
}


def symmetry(F):
    out = []
    ins = FnCheck(F, MI + "insert_doc")
    rem = FnCheck(F, MI + "remove_doc")
    if ins.fn is None or rem.fn is None:
        return Result("inconclusive", "insert_doc/remove_doc not found")
    for sname, (ev_i, ev_r) in STRUCTS.items():
        if ins.count(ev_i) == 0 or rem.count(ev_r) == 0:
            out.append(Result("inconclusive", "pattern for %s matched nothing (insert %d, remove %d)" % (sname, ins.count(ev_i), rem.count(ev_r))))
            continue
        for gname, arms in GUARDS.items():
            ri = ins.reachable(ev_i, assume=arms)
            rr = rem.reachable(ev_r, assume=arms)
            q = ri.queries + rr.queries
            sec = ri.seconds + rr.seconds
            a, b = ri.verdict == "holds", rr.verdict == "holds"
            smp = {"kind": "SYMMETRY", "structure": sname, "value_class": gname, "insert_adds": a, "remove_removes": b}
            if a == b:
                out.append(Result("holds", "%s / %s: insert=%s remove=%s" % (sname, gname, a, b), queries=q, seconds=sec, sample=smp))
            else:
                out.append(Result("violated", "index asymmetry: for a %s value, insert_doc %s %s but remove_doc %s it" % (
                    gname, "adds to" if a else "does not touch", sname, "removes from" if b else "does not remove from"), queries=q, seconds=sec, sample=smp))
    return out


def composition(F):
    """compile_filter_to_bitmap: the boolean connectives are compiled to the matching set operations — on the AndFilter arm
    sub-results are only intersected (&=), on the OrFilter / InMatch arms only united (|=), on the NotFilter arm the
    sub-result is subtracted from a clone of the alive set and nothing else; an empty And is the alive set, an empty Or the
    empty set.  The arms of the variant switch are identified by the downcast their first block performs."""
    f = [n for n in F if n.endswith("compile_filter_to_bitmap") and "{closure" not in n]
    if len(f) != 1:
        return [Result("inconclusive", "compile_filter_to_bitmap not found (%d candidates)" % len(f))]
    f = f[0]
    fc = FnCheck(F, f)
    fn = fc.fn
    VSW = r"^discr\(.* as Some\)\.0: proto::metadata_filter::FilterType\)\)$"
    sw = [b for b in fn.blocks.values() if not b.cleanup and b.kind == "switch" and re.search(VSW, origin(fn, b.switch_local))]
    if len(sw) != 1:
        return [Result("inconclusive", "variant switch of compile_filter_to_bitmap not found")]
    arm_of = {}
    for lab, t in sw[0].succs:
        for st in fn.blocks[t].stmts:
            m = re.search(r"FilterType\) as (\w+)\)\.0", st)
            if m:
                arm_of[m.group(1)] = lab
    need = ("AndFilter", "OrFilter", "NotFilter", "InMatch")
    if any(v not in arm_of for v in need):
        return [Result("inconclusive", "arms of the FilterType switch not identified: %s" % arm_of)]
    A = lambda v: Arm(VSW, {arm_of[v]}, name="filter is " + v)
    AND = call(r"= <RoaringTreemap as BitAndAssign>::bitand_assign\(", name="acc &= sub")
    OR = call(r"= <RoaringTreemap as BitOrAssign>::bitor_assign\(", name="acc |= sub")
    SUB = call(r"= <RoaringTreemap as SubAssign<&RoaringTreemap>>::sub_assign\(", name="out -= sub")
    XOR = call(r"= <RoaringTreemap as BitXorAssign>::bitxor_assign\(", name="^=")
    REC = call(r"= (hnsw_backend::)?compile_filter_to_bitmap\(", name="compile_filter_to_bitmap(sub)")
    ALIVE = Ev(r"= <RoaringTreemap as Clone>::clone\(", kind="call", also=lambda fn_, b, _t: bool(re.search(r"MetadataInvertedIndex\)\}\)\.\d+: (roaring::)?RoaringTreemap\)", origin(fn_, _M._split_top(b.args)[0]))), name="index.alive.clone()")
    NEW = call(r"RoaringTreemap>::new\(", name="RoaringTreemap::new()")
    RET = stmt(r"^_0 = (std::option::)?Option::<(roaring::)?RoaringTreemap>::Some\(", name="return Some(bitmap)")
    nv = lambda ev, v: fc.never(ev, frm=A(v), need_witness_without=False)
    out = []
    # And: only intersections; every further sub-result is intersected before the result is returned
    out += [nv(OR, "AndFilter"), nv(SUB, "AndFilter"), nv(XOR, "AndFilter"), nv(NEW, "AndFilter")]
    out.append(fc.follows(Arm(r"^discr\(try\(call (hnsw_backend::)?compile_filter_to_bitmap\)\)$", {"0"}, name="sub-filter compiled (loop of the And arm)", nth=1), AND, exit="any", exit_ev=RET))
    # Or / InMatch: only unions, starting from the empty set
    for v in ("OrFilter", "InMatch"):
        out += [nv(AND, v), nv(SUB, v), nv(XOR, v), nv(ALIVE, v)]
    out.append(fc.follows(Arm(r"^discr\(try\(call (hnsw_backend::)?compile_filter_to_bitmap\)\)$", {"0"}, name="sub-filter compiled (Or arm)", nth=2), OR, exit="any", exit_ev=RET))
    # Not: alive minus the sub-result
    out += [nv(AND, "NotFilter"), nv(OR, "NotFilter"), nv(XOR, "NotFilter"), nv(NEW, "NotFilter")]
    out.append(fc.follows(Arm(r"^discr\(try\(call (hnsw_backend::)?compile_filter_to_bitmap\)\)$", {"0"}, name="sub-filter compiled (Not arm)", nth=3), SUB, exit="any", exit_ev=RET))
    out.append(fc.follows(Arm(r"^discr\(try\(call (hnsw_backend::)?compile_filter_to_bitmap\)\)$", {"0"}, name="sub-filter compiled (Not arm)", nth=3), ALIVE, exit="any", exit_ev=RET))
    # the subtraction's left side is the alive clone
    for b in fn.blocks.values():
        if not b.cleanup and SUB.match_block(fn, b):
            lhs = origin(fn, _M._split_top(b.args)[0])
            ok = "RoaringTreemap as Clone>::clone" in lhs
            out.append(Result("holds" if ok else "violated", "Not: `%s -= sub`" % lhs[:70], sample={"fn": f, "kind": "PROVENANCE", "lhs": lhs[:100]}))
    return out


def alive_maintained(F):
    """The alive bitmap decides every filter derived from 'all documents' (empty filter, empty And, Not, and the final
    intersection): insert_doc adds the id on every path to its return — whatever the metadata holds, including nothing —
    and remove_doc removes it on every path; both operate on field `alive` of the index itself."""
    ai = field_index("hnsw_backend.rs", "MetadataInvertedIndex", "alive")
    if ai is None:
        return [Result("inconclusive", "MetadataInvertedIndex.alive not found")]
    SELF_ALIVE = r"^&\(\(\*\{arg\(_1: &mut (hnsw_backend::)?MetadataInvertedIndex\)\}\)\.%d: (roaring::)?RoaringTreemap\)$" % ai

    def on_alive(fn, b, _t):
        a = _M._split_top(b.args)
        return bool(a) and bool(re.search(SELF_ALIVE, origin(fn, a[0]))) and len(a) > 1 and origin(fn, a[1]) == "arg(_2: u64)"
    out = []
    for meth, op in (("insert_doc", "insert"), ("remove_doc", "remove")):
        f = "hnsw_backend::MetadataInvertedIndex::" + meth
        fc = FnCheck(F, f)
        if fc.fn is None:
            out.append(fc.missing())
            continue
        EV = Ev(r"RoaringTreemap>::%s\(" % op, kind="call", also=on_alive, name="self.alive.%s(doc_id)" % op)
        g_ret = [b.idx for b in fc.fn.blocks.values() if not b.cleanup and b.kind == "return"]
        RET = Ev(r".", kind="any", also=lambda fn, b, t, rs=set(g_ret): False, name="return")
        # every path from the entry to a return passes the alive update: cut nothing, ask for a return reachable while avoiding EV
        r = fc.follows(Ev(r".", kind="call", also=lambda fn, b, t: b.idx == 0, name="entry (first call)"), EV, exit="return") if fc.fn.blocks[0].kind == "call" and not on_alive(fc.fn, fc.fn.blocks[0], "") else None
        if r is None:
            # the very first block is the alive update itself (remove_doc) — it dominates every return
            r = fc.reachable(EV)
            if r.verdict == "holds" and fc.fn.blocks[0].kind == "call" and on_alive(fc.fn, fc.fn.blocks[0], ""):
                r.detail = "self.alive.%s(doc_id) is the entry block of %s" % (op, meth)
            else:
                r = Result("inconclusive", "entry of %s not in a recognised form" % meth)
        out.append(r)
    return out


MOS.append(MO("O11.8/alive_maintained", "MetadataInvertedIndex: insert_doc puts the id into the alive bitmap on every path to its return (also for empty metadata), remove_doc takes it out on every path",
              alive_maintained, functions=[("hnsw_backend.rs", "insert_doc"), ("hnsw_backend.rs", "remove_doc")]))
MOS.append(MO("O11.7/composition", "compile_filter_to_bitmap: And arms only intersect (&=), Or / InMatch arms only unite (|=) from the empty set, Not subtracts the sub-result from a clone of the alive set; every compiled sub-filter is combined before the result is returned",
              composition, functions=[("hnsw_backend.rs", "compile_filter_to_bitmap")]))
MOS.append(MO("O11.4/symmetry", "MetadataInvertedIndex: for every index structure and value class (non-numeric, numeric NaN, numeric non-NaN) remove_doc un-indexes exactly where insert_doc indexes",
              symmetry, functions=[("hnsw_backend.rs", "insert_doc"), ("hnsw_backend.rs", "remove_doc")]))


def run(tier, seed, notes):
    obls = run_mir_obligations("C11", tier, MOS, notes)
    obls += run_kani_group("C11", tier, "lib", {"hnsw_backend.rs": "hnsw_backend_proofs.rs", "hnsw_index.rs": "hnsw_index_proofs.rs", "simd.rs": "simd_proofs.rs"}, HARNESSES, jobs=2, notes=notes)
    return obls
