"""C06 — search results are sound (ranking kernels, oversampling, heap; tombstone filter skeleton)."""
from vlib.mo import *
import re
from vlib.runner import KH, run_kani_group, run_mir_obligations

LEVEL = "other"
EXPLANATION = ("Kani/CBMC bounded verdicts over the real ranking kernels (orders, binary heap, oversampling arithmetic, user-distance conversion) with fully symbolic floats; mirflow/z3 path obligations for the tombstone filter, "
               "the merge order and the canonical hot-candidate filter on the single, batch and timed search entry points.")
TRUSTED_BASE = ["Kani 0.68 MIR->goto translation", "CBMC 6.11 float semantics + CaDiCaL", "Kani's model of sqrtf32 (O6.2 only uses sign/NaN facts)"]
NOT_COVERED = ["that the graph search returns true neighbours", "reported distance vs stored vector end to end", "SIMD arithmetic values and rounding (which lanes the AVX2 / AVX-512 kernels consume is O6.8; SSE2, the 4x-unrolled loops and the scalar tails are not covered)", "histories with drains and compaction",
               "merge_knn_results (std HashMap dedup is beyond CBMC here)"]
FA = [("ann_backend.rs", "cmp"), ("ann_backend.rs", "push"), ("ann_backend.rs", "pop"), ("ann_backend.rs", "sift_up"), ("ann_backend.rs", "sift_down")]
HARNESSES = [
    KH("O6.1", "c06_o1_compute_search_k", "compute_search_k: no overflow/panic, result in [min(k,total),10000], >= k when slots allow, no oversampling without tombstones",
       src="hnsw_backend.rs", functions=[("hnsw_backend.rs", "compute_search_k")], bounds="1<=k<=10000, live<=total<=2^40"),
    KH("O6.2", "c06_o2_metric_distance_to_user", "metric_distance_to_user: Euclidean non-NaN >= 0; cosine/IP identity", src="ann_backend.rs",
       functions=[("ann_backend.rs", "metric_distance_to_user")], bounds="all non-NaN f32"),
    KH("O6.3/cand", "c06_o3_candidate_item_total_order", "CandidateHeapItem::cmp is a total order consistent with numeric < (NaN, +-0, inf included)", src="ann_backend.rs", functions=FA, bounds="three arbitrary items"),
    KH("O6.3/res", "c06_o3_result_item_total_order", "ResultHeapItem::cmp is a total order consistent with numeric <", src="ann_backend.rs", functions=FA, bounds="three arbitrary items"),
    KH("O6.3/topk", "c06_o3_topk_candidate_total_order", "hot_tier::TopKCandidate::cmp is a total order consistent with numeric <", src="hot_tier.rs", functions=[("hot_tier.rs", "cmp")], bounds="three arbitrary items"),
    KH("O6.7/cosine", "c06_o7_hot_distance_cosine", "HotTier::cosine_distance_with_cached_norm == 1 - <a,b>/(|a||b|) for every similarity in [-1,1]; 0 / 2 beyond (the clamp only absorbs rounding)", src="hot_tier.rs",
       functions=[("hot_tier.rs", "cosine_distance_with_cached_norm")], bounds="dimension 2; query lanes: all f32 bit patterns; stored vector (1,0) with cached norms 1; scalar dot kernel", timeout=900),
    KH("O6.7/inner_product", "c06_o7_hot_distance_inner_product", "HotTier::dot_distance_with_cached_norm == 1 - <a,b>/(|a||b|) for every similarity in [-1,1]; 0 / 2 beyond", src="hot_tier.rs",
       functions=[("hot_tier.rs", "dot_distance_with_cached_norm")], bounds="dimension 2; query lanes: all f32 bit patterns; stored vector (1,0) with cached norms 1; scalar dot kernel", timeout=900),
    KH("O6.7/cosine_b2", "c06_o7_hot_distance_cosine_b2", "same for the stored unit vector (0.6, 0.8)", src="hot_tier.rs", functions=[("hot_tier.rs", "cosine_distance_with_cached_norm")],
       bounds="dimension 2; query lanes: all f32 bit patterns; stored vector (0.6,0.8)", timeout=1500, tier="thorough"),
    KH("O6.7/inner_product_b2", "c06_o7_hot_distance_inner_product_b2", "same for the stored unit vector (0.6, 0.8)", src="hot_tier.rs", functions=[("hot_tier.rs", "dot_distance_with_cached_norm")],
       bounds="dimension 2; query lanes: all f32 bit patterns; stored vector (0.6,0.8)", timeout=1500, tier="thorough"),
    KH("O6.4/n3", "c06_o4_search_heap_n3", "SearchHeap<ResultHeapItem>: peek is max after each push; pops non-increasing; multiset preserved", src="ann_backend.rs", functions=FA,
       bounds="1..3 pushes of arbitrary (f32,u32) items then n pops; unwind 5"),
    KH("O6.4/n4", "c06_o4_search_heap_n4", "SearchHeap<ResultHeapItem>: same with up to 4 items", src="ann_backend.rs", functions=FA,
       bounds="1..4 pushes of arbitrary (f32,u32) items then n pops; unwind 6", tier="thorough", timeout=900),
] + [
    KH("O6.8/lanes_%s_avx512_c%d" % (k, c), "c06_o8_lanes_%s_avx512_c%d" % (k, c), "AVX-512 %s kernel, %d chunks of 16 lanes: every lane pair (a[i], b[i]) is consumed exactly once (exact integer lane model of the arithmetic intrinsics; real loads, loops and offsets)" % (k, c),
       src="simd.rs", functions=[("simd.rs", fn_)], bounds="length %d; every lane an arbitrary bit (two arbitrary masks); unwind 82" % (16 * c), timeout=(900 if c == 2 else 2400), replay="solver-only", tier=t)
    for k, fn_, c, t in (("l2", "l2_distance_sq_f32_avx512", 2, "quick"), ("l2", "l2_distance_sq_f32_avx512", 3, "thorough"),
                         ("dot", "dot_f32_avx512", 2, "quick"), ("sumsq", "sum_squares_f32_avx512", 2, "quick"))
] + [
    KH("O6.8/lanes_%s_avx2_c%d" % (k, c), "c06_o8_lanes_%s_avx2_c%d" % (k, c), "AVX2 %s kernel, %d chunks of 8 lanes: every lane pair (a[i], b[i]) is consumed exactly once (exact integer lane model of the arithmetic intrinsics; real loads, loops and offsets)" % (k, c),
       src="simd.rs", functions=[("simd.rs", fn_)], bounds="length %d; every lane an arbitrary bit (two arbitrary masks); unwind 82" % (8 * c), timeout=900, replay="solver-only", tier=t)
    for k, fn_, c, t in (("l2", "l2_distance_sq_f32_avx2", 2, "quick"), ("l2", "l2_distance_sq_f32_avx2", 3, "quick"), ("dot", "dot_f32_avx2", 2, "quick"), ("dot", "dot_f32_avx2", 3, "quick"))
]


HOT_FILTER = call(r"= TieredEngine::filter_hot_knn_results_to_canonical\(", name="filter_hot_knn_results_to_canonical")
MERGE = call(r"= TieredEngine::merge_knn_results\(", name="merge_knn_results")
HOT_KNN = call(r"= HotTier::knn_search(_with_cancel)?\(", name="hot_tier.knn_search*")


def _fn_and_closures(F, prefix):
    from vlib.mirflow import find_fn
    rn, _fn = find_fn(F, prefix)
    return [n for n in F if rn and (n == rn or n.startswith(rn + "::{closure#"))]


def _hot_closure_filtered(F, prefix):
    """Batch path: whichever function/closure performs the hot-tier search also applies the canonical filter to its result before returning it."""
    names = _fn_and_closures(F, prefix)
    hits = [n for n in names if FnCheck(F, n).count(HOT_KNN) > 0]
    if not hits:
        return Result("inconclusive", "no hot-tier search found under %s" % prefix)
    out = []
    for n in hits:
        fc = FnCheck(F, n)
        if fc.count(HOT_FILTER) == 0:
            r = fc.reachable(HOT_KNN)
            out.append(Result("violated" if r.verdict == "holds" else "inconclusive", "%s searches the hot tier but never calls filter_hot_knn_results_to_canonical: stale mirrors reach the merge" % n,
                              queries=r.queries, seconds=r.seconds, sample={"fn": n, "kind": "FOLLOWS", "A": HOT_KNN.name, "B": HOT_FILTER.name}))
        else:
            out.append(fc.follows(HOT_KNN, HOT_FILTER, exit="any", exit_ev=anyev(r"^_0 = ", name="return value")))
    return out


def _timed_filtered(F):
    names = _fn_and_closures(F, T + "knn_search_with_timeouts_with_ef_scoped")
    hits = [n for n in names if FnCheck(F, n).count(MERGE) > 0]
    if not hits:
        return Result("inconclusive", "merge_knn_results not found under the timed search entry point")
    # coroutine body: the resume dispatch at bb0 can enter any segment, so PRECEDES is not expressible on the
    # data-abstract CFG; require that the filter exists in the same state machine and never comes *after* the merge
    out = []
    for n in hits:
        fc = FnCheck(F, n)
        if fc.count(HOT_FILTER) == 0:
            out.append(Result("violated", "%s merges hot results without filter_hot_knn_results_to_canonical" % n))
        else:
            out.append(fc.never(HOT_FILTER, frm=MERGE))
    return out


HB = "hnsw_backend::HnswBackend::"
T = "tiered_engine::TieredEngine::"
PUSH = call(r"= Vec::<(hnsw_index::)?SearchResult>::push\(", name="mapped.push")
def merge_dedup_complete(F):
    """merge_knn_results must remove EVERY duplicate id, not only adjacent ones.  Vec::dedup* removes consecutive duplicates only:
    it is complete only if the vector was sorted by the SAME key just before.  Decided: if the function de-duplicates with a
    `dedup*` call, the last sort before it must order by the document id (a `sort_by` whose comparator compares f32 distances
    does not bring equal ids together)."""
    import vlib.mir as _M
    fc = FnCheck(F, T + "merge_knn_results")
    if fc.fn is None:
        return [fc.missing()]
    fn = fc.fn
    ded = [b for b in fn.blocks.values() if not b.cleanup and b.kind == "call" and re.search(r"::dedup(_by|_by_key)?(::<.*>)?$", (b.callee or ""))]
    if not ded:
        return [Result("holds", "no Vec::dedup* in merge_knn_results (duplicates are removed through a map)", sample={"fn": fc.name, "kind": "COUNT", "dedup_calls": 0})]
    sorts = [b for b in fn.blocks.values() if not b.cleanup and b.kind == "call" and re.search(r"::sort(_unstable)?(_by|_by_key|_by_cached_key)?(::<.*>)?$", (b.callee or ""))]
    by_float = []
    for sb in sorts:
        m = re.search(r"\{closure@([^}]*)\}", sb.callee or "")
        float_cmp = False
        if m:
            for name, f2 in F.items():
                if "merge_knn_results::{closure" in name:
                    txt = " ".join((b.callee or "") for b in f2.blocks.values() if b.kind == "call")
                    if re.search(r"<f32 as PartialOrd>::partial_cmp|f32>::total_cmp", txt):
                        float_cmp = True
        if float_cmp or re.search(r"sort(_unstable)?_by::<", sb.callee or ""):
            by_float.append(sb.idx)
    r = fc.reachable(call(r"::dedup", name="Vec::dedup*"))
    if sorts and len(by_float) == len(sorts):
        return [Result("violated", "merge_knn_results removes duplicates with Vec::dedup* after sorting by DISTANCE only: a document that is a candidate from both tiers survives twice whenever another "
                       "candidate sorts between its two copies (equal or interleaved distances), and pushes a legitimate result out of the top k", queries=r.queries, seconds=r.seconds,
                       sample={"fn": fc.name, "kind": "PRECEDES", "A": "sort by doc_id", "B": "Vec::dedup*", "sorts_by_distance": ["bb%d" % i for i in by_float]})]
    return [Result("inconclusive", "merge_knn_results de-duplicates with Vec::dedup*; the preceding sort key was not recognised", queries=r.queries, seconds=r.seconds)]


MOS = [
    MO("O6.6/tombstone_filter", "knn_search_with_ef_cancel: a result is emitted only for an internal id that maps to Some(Some(external id)) (tombstones and out-of-range ids skipped), under the doc_store read lock, and at most k results",
       allof(only_via(HB + "knn_search_with_ef_cancel", PUSH, Arm(r"^discr\(call core::slice::<impl \[Option<u64>\]>::get::<usize>\)$", {"1"}, name="internal id in range")),
             only_via(HB + "knn_search_with_ef_cancel", PUSH, Arm(r"^discr\(\(\*\{no_retag copy \(\(_\d+ as Some\)\.0: &Option<u64>\)\}\)\)$", {"1"}, name="slot is live (Some)")),
             held(HB + "knn_search_with_ef_cancel", DOCSTORE_READ, PUSH),
             follows(HB + "knn_search_with_ef_cancel", PUSH, anyev(r"^_\d+ = Ge\(move _\d+, copy _3\);$|= Vec::<(hnsw_index::)?SearchResult>::len\(", name="mapped.len() >= k test"), exit="ok"),
             precedes(HB + "knn_search_with_ef_cancel", call(r"= (hnsw_backend::)?compute_search_k\(", name="compute_search_k"), call(r"= HnswVectorIndex::knn_search_with_ef_cancel\(", name="index search"))),
       functions=[("hnsw_backend.rs", "knn_search_with_ef_cancel")]),
    MO("O6.6/merge_dedup", "merge_knn_results: duplicates are removed completely — through a map, or by a dedup* that follows a sort by the same key (never a dedup* after a sort by distance)",
       merge_dedup_complete, functions=[("tiered_engine.rs", "merge_knn_results")]),
    MO("O6.6/merge", "merge_knn_results: dedup map filled from the hot results first (hot wins via or_insert for cold), then sorted by distance, then truncated to k",
       allof(never(T + "merge_knn_results", call(r"= hash_map::Entry::<'_, u64, f32>::or_insert\(", name="entry(cold).or_insert"), frm=call(r"sort_by::<", name="sort_by distance")),
             never(T + "merge_knn_results", call(r"= HashMap::<u64, f32>::insert\(", name="map.insert(hot)"), frm=call(r"sort_by::<", name="sort_by distance")),
             precedes(T + "merge_knn_results", call(r"sort_by::<", name="sort_by distance"), call(r"= Vec::<(hnsw_index::)?SearchResult>::truncate\(", name="truncate(k)")),
             follows(T + "merge_knn_results", call(r"sort_by::<", name="sort_by distance"), call(r"= Vec::<(hnsw_index::)?SearchResult>::truncate\(", name="truncate(k)"), exit="any"),
             never(T + "merge_knn_results", call(r"= HashMap::<u64, f32>::insert\(", name="map.insert (overwriting)"), frm=call(r"= hash_map::Entry::<'_, u64, f32>::or_insert\(", name="entry(cold).or_insert"))),
       functions=[("tiered_engine.rs", "merge_knn_results")]),
    MO("O6.6/hot_filter", "every search entry point (single, batch, timed) passes hot-tier candidates through filter_hot_knn_results_to_canonical (token + digest check) before they can be merged",
       allof(precedes(T + "knn_search_with_ef_detailed_scoped", HOT_FILTER, MERGE),
             follows(T + "knn_search_with_ef_detailed_scoped", HOT_KNN, HOT_FILTER, exit="any", exit_ev=MERGE),
             lambda F: _hot_closure_filtered(F, T + "knn_search_batch_with_ef_detailed_scoped"),
             lambda F: _timed_filtered(F)),
       functions=[("tiered_engine.rs", "knn_search_with_ef_detailed_scoped"), ("tiered_engine.rs", "knn_search_batch_with_ef_detailed_scoped"), ("tiered_engine.rs", "knn_search_with_timeouts_with_ef_scoped")]),
]


def run(tier, seed, notes):
    obls = run_mir_obligations("C06", tier, MOS, notes)
    return obls + run_kani_group("C06", tier, "lib", {"hnsw_backend.rs": "hnsw_backend_proofs.rs", "ann_backend.rs": "ann_backend_proofs.rs", "hot_tier.rs": "hot_tier_proofs.rs", "hnsw_index.rs": "hnsw_index_proofs.rs", "simd.rs": "simd_proofs.rs"},
                          HARNESSES, elide_tracing=("hot_tier.rs",), jobs=6, notes=notes)
