"""C06 — search results are sound (ranking kernels, oversampling, heap; tombstone filter skeleton)."""
from vlib.runner import KH, run_kani_group

ENGINES = "K"
LEVEL = "other"
EXPLANATION = "Kani/CBMC bounded verdicts over the real ranking kernels (orders, binary heap, oversampling arithmetic, user-distance conversion) with fully symbolic floats; MIR path obligations for the tombstone filter."
TRUSTED_BASE = ["Kani 0.68 MIR->goto translation", "CBMC 6.11 float semantics + CaDiCaL", "Kani's model of sqrtf32 (O6.2 only uses sign/NaN facts)"]
NOT_COVERED = ["that the graph search returns true neighbours", "reported distance vs stored vector end to end", "SIMD-vs-scalar rounding", "histories with drains and compaction",
               "merge_knn_results (std HashMap dedup is beyond CBMC here)"]
FA = [("ann_backend.rs", "cmp"), ("ann_backend.rs", "push"), ("ann_backend.rs", "pop"), ("ann_backend.rs", "sift_up"), ("ann_backend.rs", "sift_down")]
HARNESSES = [
    KH("O6.1", "c06_o1_compute_search_k", "compute_search_k: no overflow/panic, result in [min(k,total),10000], >= k when slots allow, no oversampling without tombstones",
       src="hnsw_backend.rs", functions=[("hnsw_backend.rs", "compute_search_k")], bounds="1<=k<=10000, live<=total<=2^40"),
    KH("O6.2", "c06_o2_metric_distance_to_user", "metric_distance_to_user: Euclidean non-NaN >= 0; cosine/IP identity", src="ann_backend.rs",
       functions=[("ann_backend.rs", "metric_distance_to_user")], bounds="all non-NaN f32"),
    KH("O6.3/cand", "c06_o3_candidate_item_total_order", "CandidateHeapItem::cmp is a total order consistent with numeric < (NaN, +-0, inf included)", src="ann_backend.rs", functions=FA, bounds="three arbitrary items"),
    KH("O6.3/res", "c06_o3_result_item_total_order", "ResultHeapItem::cmp is a total order consistent with numeric <", src="ann_backend.rs", functions=FA, bounds="three arbitrary items"),
    KH("O6.3/topk", "c06_o3_topk_candidate_total_order", "hot_tier::TopKCandidate::cmp is a total order consistent with numeric <", src="hot_tier.rs", functions=[("hot_tier.rs", "cmp")], bounds="three arbitrary items"),
    KH("O6.4/n3", "c06_o4_search_heap_n3", "SearchHeap<ResultHeapItem>: peek is max after each push; pops non-increasing; multiset preserved", src="ann_backend.rs", functions=FA,
       bounds="1..3 pushes of arbitrary (f32,u32) items then n pops; unwind 5"),
    KH("O6.4/n4", "c06_o4_search_heap_n4", "SearchHeap<ResultHeapItem>: same with up to 4 items", src="ann_backend.rs", functions=FA,
       bounds="1..4 pushes of arbitrary (f32,u32) items then n pops; unwind 6", tier="thorough", timeout=900),
]


def run(tier, seed, notes):
    return run_kani_group("C06", tier, "lib", {"hnsw_backend.rs": "hnsw_backend_proofs.rs", "ann_backend.rs": "ann_backend_proofs.rs", "hot_tier.rs": "hot_tier_proofs.rs", "hnsw_index.rs": "hnsw_index_proofs.rs", "simd.rs": "simd_proofs.rs"},
                          HARNESSES, jobs=6, notes=notes)
