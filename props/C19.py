"""C19 — rate limits bound admitted traffic."""
from vlib.runner import KH, run_kani_group

LEVEL = "other"
EXPLANATION = ("Kani/CBMC bounded verdicts over the real TokenBucket (stubbed monotonic clock) + MIR path "
               "obligations over RateLimiter::check_limit decided by z3; see obligation_results for bounds.")
TRUSTED_BASE = ["rustc MIR construction", "Kani 0.68 MIR->goto translation", "CBMC 6.11 float/bit-vector semantics + CaDiCaL",
                "stub: std::time::Instant::now -> harness-controlled monotonic clock"]
NOT_COVERED = ["concurrent callers (mutex-protected; sequential semantics assumed)", "server wiring per streamed item", "a direct k-call window harness (3 calls, concrete capacity 1) did not finish in 20 min of CaDiCaL and was removed; the window bound follows from the inductive step O19.1a+O19.1b by the potential-function argument in the harness comment (paper step)",
               "symbolic elapsed*rate products (capacity x elapsed is a concrete 14-row table in the amount harnesses)"]
ASSUMPTIONS = ["1 <= capacity <= 10^6, refill_rate == capacity (only constructor)", "elapsed <= 10^4 s per step"]

F = [("rate_limiter.rs", "try_consume"), ("rate_limiter.rs", "refill"), ("rate_limiter.rs", "refund_one")]
ROWS = ["c1_t0", "c1_t1ns", "c1_t300ms", "c1_t2500ms", "c7_t1ns", "c7_t100ms", "c7_t1s", "c1000_t0", "c1000_t1ms",
        "c1000_t333ms", "c1000_t10000s", "c1m_t1ns", "c1m_t999us", "c1m_t1s"]

HARNESSES = [
    KH("O19.1a", "c19_o1_step_invariants", "TokenBucket::try_consume one step from an arbitrary valid state: invariant, time consumed once, refusal semantics",
       functions=F, bounds="capacity in [1,1e6], tokens any f64 in [0,cap], elapsed any (s,ns) <= 1e4 s; unwind 4 (Timespec recursion)", replay="solver-only"),
    KH("O19.1c", "c19_o1_refund_one", "TokenBucket::refund_one: at most one token back, never above capacity",
       functions=F, bounds="capacity in [1,1e6], tokens any f64 in [0,cap]"),
] + [
    KH("O19.1b/" + r, "c19_o1_amount_" + r, "refill amount / credit conservation for concrete (capacity, elapsed) row " + r,
       functions=F, bounds="row %s concrete; tokens any f64 in [0,cap]; eps 1e-6" % r, tier=("quick" if i % 2 == 0 else "thorough"), replay="solver-only")
    for i, r in enumerate(ROWS)
]


def run(tier, seed, notes):
    obls = run_kani_group("C19", tier, "lib", {"rate_limiter.rs": "rate_limiter_proofs.rs"}, HARNESSES, jobs=8, notes=notes)
    return obls
