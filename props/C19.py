"""C19 — rate limits bound admitted traffic."""
import re

import vlib.mir as _M
from vlib.mo import MO, Arm, Ev, FnCheck, Result, allof, call, follows, never, only_via, only_via_call, origin, precedes, stmt
from vlib.runner import KH, run_kani_group, run_mir_obligations

LEVEL = "other"
EXPLANATION = ("Kani/CBMC bounded verdicts over the real TokenBucket (stubbed monotonic clock) + MIR path "
               "obligations over RateLimiter::check_limit and over the server's wiring of enforce_rate_limit (every data RPC, every streamed item) decided by z3; see obligation_results for bounds.")
TRUSTED_BASE = ["rustc MIR construction", "Kani 0.68 MIR->goto translation", "CBMC 6.11 float/bit-vector semantics + CaDiCaL",
                "stub: std::time::Instant::now -> harness-controlled monotonic clock"]
NOT_COVERED = ["concurrent callers (mutex-protected; sequential semantics assumed)", "admin/observability RPCs (Health, Metrics, FlushHotTier, CreateSnapshot, GetConfig) are not rate limited by design and are outside O19.4", "a direct k-call window harness (3 calls, concrete capacity 1) did not finish in 20 min of CaDiCaL and was removed; the window bound follows from the inductive step O19.1a+O19.1b by the potential-function argument in the harness comment (paper step)",
               "symbolic elapsed*rate products (capacity x elapsed is a concrete 14-row table in the amount harnesses)"]
ASSUMPTIONS = ["1 <= capacity <= 10^6, refill_rate == capacity (only constructor)", "elapsed <= 10^4 s per step"]

F = [("rate_limiter.rs", "try_consume"), ("rate_limiter.rs", "refill"), ("rate_limiter.rs", "refund_one")]
ROWS = ["c1_t0", "c1_t1ns", "c1_t300ms", "c1_t2500ms", "c7_t1ns", "c7_t100ms", "c7_t1s", "c1000_t0", "c1000_t1ms",
        "c1000_t333ms", "c1000_t10000s", "c1m_t1ns", "c1m_t999us", "c1m_t1s"]

HARNESSES = [
    KH("O19.1a", "c19_o1_step_invariants", "TokenBucket::try_consume one step from an arbitrary valid state: invariant, time consumed once, refusal semantics",
       functions=F, bounds="capacity in [1,1e6], tokens any f64 in [0,cap], elapsed any (s,ns) <= 1e4 s; unwind 4 (Timespec recursion)", replay="solver-only"),
    KH("O19.1d", "c19_o1_new_bucket", "TokenBucket::new: tokens == refill rate == capacity == max_qps, reference instant = now",
       functions=[("rate_limiter.rs", "new")], bounds="every max_qps in u32; creation instant any (s,ns) <= 1e4 s", replay="solver-only"),
    KH("O19.1c", "c19_o1_refund_one", "TokenBucket::refund_one: at most one token back, never above capacity",
       functions=F, bounds="capacity in [1,1e6], tokens any f64 in [0,cap]"),
] + [
    KH("O19.1b/" + r, "c19_o1_amount_" + r, "refill amount / credit conservation for concrete (capacity, elapsed) row " + r,
       functions=F, bounds="row %s concrete; tokens any f64 in [0,cap]; eps 1e-6" % r, tier=("quick" if i % 2 == 0 else "thorough"), replay="solver-only")
    for i, r in enumerate(ROWS)
]


# ---------------------------------------------------------------------------------------------
# O19.3: RateLimiter::check_limit / enforce_rate_limit path obligations (engine M).  The four try_consume calls are told
# apart by the provenance of their receiver: the tenant bucket is reached through the Arc taken from the map, the global
# bucket through the payload of `self.global_bucket`.
# ---------------------------------------------------------------------------------------------
CL = "RateLimiter::check_limit"
_GLOBAL_RX = r"as Some\)\.0: Mutex<(rate_limiter::)?TokenBucket>"
_TENANT_RX = r"Mutex::<TokenBucket>::lock\(deref\("


def _recv(rx):
    def also(fn, b, _txt):
        a0 = (_M._split_top(b.args) or [""])[0]
        return bool(re.search(rx, origin(fn, a0)))
    return also


TENANT_TC_CALL = Ev(r"= TokenBucket::try_consume\(", kind="call", also=_recv(_TENANT_RX), name="tenant bucket try_consume()")
GLOBAL_TC_CALL = Ev(r"= TokenBucket::try_consume\(", kind="call", also=_recv(_GLOBAL_RX), name="global bucket try_consume()")
TENANT_REFUND = Ev(r"= TokenBucket::refund_one\(", kind="call", also=_recv(_TENANT_RX), name="tenant bucket refund_one()")
ANY_REFUND = call(r"= TokenBucket::refund_one\(", name="refund_one()")
TENANT_OK = Arm(r"^call TokenBucket::try_consume\(.*" + _TENANT_RX, {"otherwise"}, name="tenant try_consume() == true")
TENANT_NO = Arm(r"^call TokenBucket::try_consume\(.*" + _TENANT_RX, {"0"}, name="tenant try_consume() == false")
GLOBAL_OK = Arm(r"^call TokenBucket::try_consume\(.*" + _GLOBAL_RX, {"otherwise"}, name="global try_consume() == true")
GLOBAL_NO = Arm(r"^call TokenBucket::try_consume\(.*" + _GLOBAL_RX, {"0"}, name="global try_consume() == false")
RET_TRUE = stmt(r"^_0 = const true;$", name="return true")
RET_FALSE = stmt(r"^_0 = const false;$", name="return false")
ERL = "KyroDBServiceImpl::enforce_rate_limit"

MOS = [
    MO("O19.3/tenant_first", "check_limit: the global bucket is consulted only after the tenant's own bucket admitted the request, and a request is admitted only through a successful tenant try_consume (fast path and first-request path)",
       allof(only_via(CL, GLOBAL_TC_CALL, TENANT_OK),
             only_via(CL, RET_TRUE, TENANT_OK),
             never(CL, RET_TRUE, frm=TENANT_NO),
             never(CL, RET_TRUE, frm=GLOBAL_NO),
             never(CL, TENANT_TC_CALL, frm=TENANT_OK),
             never(CL, GLOBAL_TC_CALL, frm=GLOBAL_OK)),
       functions=[("rate_limiter.rs", "check_limit")]),
    MO("O19.3/refund", "check_limit: every path from a global try_consume that does not take its `true` arm gives the tenant its token back (refund_one on the tenant bucket) before returning; no refund happens on any other path",
       allof(follows(CL, GLOBAL_TC_CALL, TENANT_REFUND, exit="return", cut=[GLOBAL_OK]),
             only_via(CL, ANY_REFUND, GLOBAL_NO),
             never(CL, ANY_REFUND, frm=GLOBAL_OK),
             never(CL, ANY_REFUND, frm=TENANT_NO)),
       functions=[("rate_limiter.rs", "check_limit")]),
]
MOS_BIN = [
    MO("O19.3/server", "enforce_rate_limit: with a tenant, Ok(()) is returned only on the `true` arm of RateLimiter::check_limit (a refusal becomes RESOURCE_EXHAUSTED)",
       allof(only_via(ERL, stmt(r"^_0 = Result::<\(\), (tonic::)?Status>::Ok\(", name="Ok(())"), Arm(r"^call RateLimiter::check_limit$", {"otherwise"}, name="check_limit() == true"),
                      frm=Arm(r"^discr\(arg\(_2: Option<&TenantContext>\)\)$", {"1"}, name="tenant is Some")),
             lambda F: FnCheck(F, ERL).reachable(call(r"Status::resource_exhausted", name="Status::resource_exhausted"))),
       functions=[("bin/kyrodb_server.rs", "enforce_rate_limit")], target="kyrodb_server"),
]

# O19.4: "checked on every RPC and per streamed item" -- the admission decision is worth nothing if a handler reaches the engine
# without having asked for it, or asks once for a whole stream.
RPC = lambda name: "<KyroDBServiceImpl as KyroDbService>::%s::{closure#0}::{closure#0}" % name
ERL_CALL = call(r"= KyroDBServiceImpl::enforce_rate_limit\(", name="enforce_rate_limit()")
ERL_OK = Arm(r"^discr\(try\(call KyroDBServiceImpl::enforce_rate_limit\)\)$", {"0"}, name="enforce_rate_limit()? -> Ok")
ENGINE_ANY = call(r"= TieredEngine::\w+\(", name="any TieredEngine call")
E_INSERT = call(r"= TieredEngine::insert\(", name="engine.insert")
E_BULK = call(r"= TieredEngine::bulk_load_cold_tier\(", name="engine.bulk_load_cold_tier")
STREAM_NEXT = call(r"async fn body of Streaming<.*>::message\(\)\} as .*Future>::poll\(", name="stream.message().await (next item)")
DOC_PUSH = call(r"= Vec::<\(u64, Vec<f32>, HashMap<.*String, .*String>\)>::push\(", name="documents.push(item)")
REQ_PUSH = call(r"= Vec::<(kyrodb_engine::proto::)?SearchRequest>::push\(", name="pending.push(req)")
BATCH_CALL = call(r"= KyroDBServiceImpl::handle_search_requests_batch\(", name="handle_search_requests_batch(pending)")
ERL_FIELD_RX = r"^discr\(.* as variant#\d+\)\.\d+: Result<\(\), (tonic::)?Status>\)\)$"
ERL_FIELD_OK = Arm(ERL_FIELD_RX, {"!1"}, name="stored enforce_rate_limit() result is Ok")
BS = "<KyroDBServiceImpl as KyroDbService>::bulk_search::{closure#0}::{closure#0}::{closure#0}"
HSR = "KyroDBServiceImpl::handle_search_request::{closure#0}"


def stored_result_is_rate_limit(F):
    """In the spawned BulkSearch task the rate-limit result lives in a coroutine field; the arm used above is typed
    (Result<(), Status>) rather than traced, so check that every such switch directly follows an enforce_rate_limit call
    writing that field."""
    fc = FnCheck(F, BS)
    if fc.fn is None:
        return fc.missing()
    fn = fc.fn
    sws = ERL_FIELD_OK.switches(fn)
    if not sws:
        return Result("inconclusive", "no Result<(), Status> coroutine-field switch in the BulkSearch task")
    for b in sws:
        preds = [p for p in fn.blocks.values() if not p.cleanup and any(t == b.idx for _l, t in p.succs)]
        if not preds or not all(p.kind == "call" and re.search(r"= KyroDBServiceImpl::enforce_rate_limit\(", p.term or "") for p in preds):
            # the typed arm would conflate this decision with the rate-limit one: undecided rather than an alarm
            return Result("inconclusive", "bb%d switches on a stored Result<(), Status> that is not written by enforce_rate_limit() in the preceding block" % b.idx,
                          sample={"fn": fc.name, "kind": "STRUCT", "switch": "bb%d" % b.idx})
    return Result("holds", "%d stored-result switch(es), each directly after enforce_rate_limit()" % len(sws), sample={"fn": fc.name, "kind": "STRUCT", "switches": ["bb%d" % b.idx for b in sws]})


def _every_request():
    cs = []
    for n in ("insert", "delete", "update_metadata", "query", "bulk_query", "batch_delete", "bulk_insert", "bulk_load_hnsw"):
        cs.append(only_via_call(RPC(n), ENGINE_ANY, ERL_CALL, ERL_OK, why="the RPC reaches the engine without a rate-limit decision"))
    cs.append(only_via_call(HSR, ENGINE_ANY, ERL_CALL, ERL_OK, why="search reaches the engine without a rate-limit decision"))
    # Search goes through handle_search_request and touches the engine nowhere else
    cs.append(lambda F: FnCheck(F, RPC("search")).reachable(call(r"= KyroDBServiceImpl::handle_search_request\(", name="handle_search_request()")))
    cs.append(never(RPC("search"), ENGINE_ANY, need_witness_without=False))
    return allof(*cs)


def _per_item():
    return allof(
        # BulkInsert: between receiving an item and inserting it lies a successful rate-limit decision
        only_via(RPC("bulk_insert"), E_INSERT, ERL_OK, frm=STREAM_NEXT),
        # BulkLoadHnsw: every received item that is queued for loading was charged; every batch ingestion too
        only_via(RPC("bulk_load_hnsw"), DOC_PUSH, ERL_OK, frm=STREAM_NEXT),
        # (the ingestion of the last partial batch after end-of-stream needs no further decision: its items were charged on receipt)
        # BulkSearch (spawned task): each queued request was charged since the previous one was queued, a refused
        # one is never queued
        lambda F: FnCheck(F, BS).reachable(REQ_PUSH),
        precedes(BS, ERL_CALL, REQ_PUSH),
        only_via(BS, REQ_PUSH, ERL_FIELD_OK),
        only_via(BS, REQ_PUSH, ERL_FIELD_OK, frm=REQ_PUSH, strict=True),
        lambda F: stored_result_is_rate_limit(F),
        never(BS, ENGINE_ANY, need_witness_without=False),
    )


MOS_BIN += [
    MO("O19.4/every_request", "every data RPC (Insert, Delete, UpdateMetadata, Query, BulkQuery, BatchDelete, BulkInsert, BulkLoadHnsw, Search via handle_search_request) reaches a TieredEngine call only through the Ok arm of enforce_rate_limit()?",
       _every_request(), functions=[("bin/kyrodb_server.rs", n) for n in ("insert", "delete", "update_metadata", "query", "bulk_query", "batch_delete", "bulk_insert", "bulk_load_hnsw", "search", "handle_search_request")], target="kyrodb_server"),
    MO("O19.4/per_item", "streamed RPCs are charged per item: BulkInsert inserts, BulkLoadHnsw queues and BulkSearch queues an item only after an enforce_rate_limit() decision taken since that item was received (and never on its Err arm)",
       _per_item(), functions=[("bin/kyrodb_server.rs", n) for n in ("bulk_insert", "bulk_load_hnsw", "bulk_search")], target="kyrodb_server"),
]


def run(tier, seed, notes):
    obls = run_mir_obligations("C19", tier, MOS + MOS_BIN, notes)
    obls += run_kani_group("C19", tier, "lib", {"rate_limiter.rs": "rate_limiter_proofs.rs"}, HARNESSES, jobs=8, notes=notes)
    return obls
